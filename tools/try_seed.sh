#!/bin/sh
# tools/try_seed.sh <patch.diff> <ID> [extra ./check args]   -- apply a seeded change to /repo, run the check, undo.
P="$1"; ID="$2"; shift 2
cd /repo || exit 9
git diff --quiet || { echo "/repo has uncommitted changes"; exit 9; }
git apply "$P" || { echo "patch does not apply"; exit 9; }
cd /verif
./check "$ID" "$@" --no-evidence > /tmp/seed-$ID.log 2>&1
rc=$?
git -C /repo checkout -- .
grep -E "VIOLATION|HARNESS-ERROR|counterexample|shards confirmed" /tmp/seed-$ID.log | cut -c1-600
echo "exit=$rc"
