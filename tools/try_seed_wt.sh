#!/bin/sh
# tools/try_seed_wt.sh <abs patch.diff> <ID> [extra ./check args]
# Like try_seed.sh, but leaves /repo alone: the seeded change is applied to a scratch worktree of /repo (outside /repo and /verif)
# and the check is pointed at it with PYTHONPATH (the editable install of /repo resolves after PYTHONPATH).  The worktree is removed.
P="$1"; ID="$2"; shift 2
WT=$(mktemp -d /tmp/seedwt-XXXXXX)
rmdir "$WT"
git -C /repo worktree add --detach "$WT" HEAD >/dev/null 2>&1 || { echo "cannot create worktree"; exit 9; }
cp /repo/src/easynetwork/version.py "$WT/src/easynetwork/version.py" 2>/dev/null
( cd "$WT" && git apply "$P" ) || { echo "patch does not apply"; git -C /repo worktree remove --force "$WT"; exit 9; }
cd /verif
LOG=/tmp/seedwt-$ID-$$.log
PYTHONPATH="$WT/src" ./check "$ID" "$@" --no-evidence > "$LOG" 2>&1
rc=$?
git -C /repo worktree remove --force "$WT"
grep -E "VIOLATION|HARNESS-ERROR|counterexample|shards confirmed" "$LOG" | cut -c1-600
rm -f "$LOG"
echo "exit=$rc"
