#!/usr/bin/env python3
"""tools/verify_seed.py <agent_dir> <k> <PROPERTY> [--caught-by "text"] [--skip-suite]
Confirm a seeded change myself in a scratch worktree of /repo HEAD: demo passes without it, fails with it,
the pinned suite still passes with it. On success store it under /verif/seeded/<PROPERTY>-<name>/ (patch.diff, demo.py, notes.md, meta.json)."""
import json, os, shutil, subprocess, sys, tempfile

agent, k, pid = sys.argv[1], sys.argv[2], sys.argv[3]
caught = sys.argv[sys.argv.index("--caught-by") + 1] if "--caught-by" in sys.argv else ""
skip_suite = "--skip-suite" in sys.argv
name = sys.argv[sys.argv.index("--name") + 1] if "--name" in sys.argv else None
patch = os.path.join(agent, f"m{k}.diff"); demo = os.path.join(agent, f"m{k}_demo.py"); notes = os.path.join(agent, f"m{k}.md")
wt = tempfile.mkdtemp(prefix="wt-verify-"); os.rmdir(wt)
def sh(*a, **kw): return subprocess.run(a, stdout=subprocess.PIPE, stderr=subprocess.STDOUT, **kw)
sh("git", "-C", "/repo", "worktree", "add", "-q", "--detach", wt, "HEAD")
try:
    shutil.copy("/repo/src/easynetwork/version.py", os.path.join(wt, "src/easynetwork/version.py"))
    env = dict(os.environ, PYTHONPATH=os.path.join(wt, "src"))
    r0 = sh("/venv/bin/python", demo, env=env, cwd=wt, timeout=300)
    ap = sh("git", "-C", wt, "apply", patch)
    if ap.returncode != 0:
        print("PATCH DOES NOT APPLY on /repo HEAD:", ap.stdout.decode()[-500:]); sys.exit(2)
    r1 = sh("/venv/bin/python", demo, env=env, cwd=wt, timeout=300)
    suite_ok = None
    if not skip_suite:
        rs = sh("python3", "/verif/tools/suite_check.py", wt, "-n", "12")
        suite_ok = rs.returncode == 0
        print(rs.stdout.decode().strip().splitlines()[0])
    print(f"demo without change: exit {r0.returncode}; with change: exit {r1.returncode}; suite_ok={suite_ok}")
    ok = r0.returncode == 0 and r1.returncode != 0 and (suite_ok or skip_suite)
    if ok:
        d = f"/verif/seeded/{name or (pid + '-m' + k)}"
        os.makedirs(d, exist_ok=True)
        shutil.copy(patch, os.path.join(d, "patch.diff")); shutil.copy(demo, os.path.join(d, "demo.py"))
        if os.path.exists(notes): shutil.copy(notes, os.path.join(d, "notes.md"))
        meta = {"property": pid, "breaks": open(notes).read().splitlines()[0].lstrip("# ") if os.path.exists(notes) else "",
                "needs_to_manifest": "see notes.md",
                "verified": {"tree": subprocess.run(["git","-C","/repo","rev-parse","--short","HEAD"],stdout=subprocess.PIPE).stdout.decode().strip(),
                             "demo_exit_without_change": r0.returncode, "demo_exit_with_change": r1.returncode,
                             "suite_with_change": "all 6710 baseline tests still pass (tools/suite_check.py)" if suite_ok else "not run",
                             "commands": ["PYTHONPATH=<wt>/src /venv/bin/python demo.py", "git apply patch.diff", "python3 tools/suite_check.py <wt>"]},
                "demo_output_with_change": r1.stdout.decode()[-600:], "caught_by": caught}
        json.dump(meta, open(os.path.join(d, "meta.json"), "w"), indent=1)
        print("stored", d)
    else:
        print("NOT KEPT"); print(r0.stdout.decode()[-400:]); print(r1.stdout.decode()[-400:])
finally:
    sh("git", "-C", "/repo", "worktree", "remove", "--force", wt)
