#!/usr/bin/env python3
"""Run the pinned test-suite of a checkout (default /repo) and compare with /root/.vp/BASELINE.json stable_pass.

usage: suite_check.py [checkout_dir] [-n workers]
exit 0 iff every baseline-passing test still passes.
"""
import json, os, subprocess, sys, tempfile
import xml.etree.ElementTree as ET

root = sys.argv[1] if len(sys.argv) > 1 and not sys.argv[1].startswith("-") else "/repo"
workers = "12"
if "-n" in sys.argv:
    workers = sys.argv[sys.argv.index("-n") + 1]
base = json.load(open("/root/.vp/BASELINE.json"))
want = set(base["stable_pass"])
fd, xml = tempfile.mkstemp(suffix=".xml"); os.close(fd)
vp = os.path.join(root, "src/easynetwork/version.py")
if not os.path.exists(vp):
    import shutil; shutil.copy("/repo/src/easynetwork/version.py", vp)
env = dict(os.environ, PYTHONPATH=os.path.join(root, "src"))
env.pop("EASYNETWORK_VERIF", None)
p = subprocess.run(["/venv/bin/python", "-m", "pytest", "-q", "-p", "no:cacheprovider", "--timeout=900", "--continue-on-collection-errors",
                    "-n", workers, f"--junitxml={xml}"], cwd=root, env=env, stdout=subprocess.PIPE, stderr=subprocess.STDOUT)
passed = set()
for tc in ET.parse(xml).getroot().iter("testcase"):
    if not any(c.tag in ("failure", "error", "skipped") for c in tc):
        passed.add(f"{tc.get('classname')}::{tc.get('name')}")
os.unlink(xml)
missing = sorted(want - passed)
print(f"baseline stable_pass={len(want)} passed_now={len(passed)} baseline tests no longer passing={len(missing)}")
for m in missing[:40]:
    print("  LOST:", m)
sys.exit(1 if missing else 0)
