#!/usr/bin/env python3
"""Regenerate /verif/MANIFEST.json from the table below (kept in one place so the manifest is always valid)."""
import json, os

HERE = os.path.dirname(os.path.dirname(os.path.abspath(__file__)))

SX_NOTE = (
    "Trusted base: CrossHair 0.0.110 core + z3 wheel, the model supplement sx/models.py (differentially self-tested on every run), "
    "the environment stubs named in the evidence file, CPython 3.12. Every explored path is re-run concretely on a solver model "
    "(real builtins) and must agree; every counterexample is replayed in a clean interpreter before it is reported. "
    "Bounded: 'confirmed' means all paths of a shard (fixed lengths/configuration, symbolic contents/sizes/cuts/choices) were explored; "
    "bounds and what lies outside are listed in the evidence ('bounds', 'outside_bounds')."
)

CLAIMED = {
    "C02": dict(
        text="Bounded symbolic execution of the real consumers/serializer base classes: for every stream of <=N symbolic bytes, every placement of <=K cuts, both receive paths, the delivered packet/error sequence equals reference frame-by-frame decoding; after a size rejection (junk length L-S-2..L+S+2) later frames arrive intact; JSON raw mode is compared with an independent reference framing (bracket/quote rule); for at-the-limit frames the strict reading (nothing of the rejected frame surfaces) is checked where the pinned tree satisfies it. The solver decides over all byte values/cuts inside the bound; rare (cut, limit, stale byte) combinations are what tests cannot sample.",
        design="4/C02",
        technique="symbolic execution of real code (CrossHair+z3), differential vs reference decoder, per-path concrete validation",
    ),
}

CLAIMED["C07"] = dict(
    text="Bounded symbolic execution of the real scanners/consumers: for every unterminated stream of N symbolic bytes delivered in reads of <=R bytes at symbolic cut positions, the bytes the receiver can still hold never exceed L+R+S before a limit error surfaces (separator-framed base class, StringLineSerializer, JSON line and raw mode, file-based base class incl. broad expected_load_error); and every frame safely under the limit (incl. exactly at the margin) is delivered for every chunking on both receive paths; pipelined JSON documents (line and raw mode) under the limit in a stream longer than the limit are all delivered.",
    design="4/C07",
    technique="symbolic execution of real code (CrossHair+z3): byte contents, cut positions symbolic; per-path concrete validation",
)

CLAIMED["C01"] = dict(
    text="Bounded symbolic execution of producer -> wire -> real consumers: (a) packets with symbolic contents through the real separator/fixed-size base classes, StringLineSerializer, the compressor wrapper base class (pure-Python codec), stapled composites (same-kind and mixed-kind halves against their mirrored peer) and converter protocols; (b) for the C-coded codecs (json, struct, base64, zlib, bz2, pickle-file) a fixed packet corpus with symbolic cut positions and size hints, i.e. every chunking of each wire. Asserted: delivered == sent, in order, once, nothing left, no error.",
    design="4/C01",
    technique="symbolic execution of real code (CrossHair+z3): symbolic packet contents and cut positions; corpus x solver-enumerated chunkings for C codecs",
    note="For C-coded serializers the content dimension is a fixed corpus (sampled); only chunking/receive path/size hint is decided by the solver.",
)

CLAIMED["C06"] = dict(
    text="Bounded symbolic execution: (a) every stream / datagram of N symbolic bytes through the real scanners, consumers, protocols and base classes yields only packets, StopIteration or protocol parse errors, an error-skipping loop terminates (each error consumes >= 1 byte), and no call hangs (wall-clock watchdog on symbolic paths + concrete hang confirmation); (b) error-mapping totality around the C decoders (json, pickle, zlib, bz2, base64): the decode call raises a solver-chosen class of the library's observable exception set and must surface as a parse error; every such path is confirmed with real bytes that make the real library raise that class (json also with debug error info; pickle including exception classes raised by rebuilding callables).",
    design="4/C06",
    technique="symbolic execution of real code (CrossHair+z3) over arbitrary input bytes; exception-class choice as a solver variable with real-input witnesses",
    note="(b) assumes the listed exception sets of the C decoders; MemoryError and decoder crashes are outside.",
)

CLAIMED["C05"] = dict(
    text="Bounded symbolic execution of the real DatagramProtocol, the one-shot interface derived from incremental serializers, and the sync + async datagram endpoints over an in-memory datagram FIFO: a datagram of N symbolic bytes is accepted iff it is exactly one complete frame; in a solver-chosen sequence of sent packets (symbolic contents) and injected arbitrary datagrams every position yields what a fresh endpoint yields for that datagram alone, sent packets come back equal, one transport.send per send_packet (empty payloads included) and one recv per recv_packet; the same through the real UDPNetworkClient (SocketDatagramTransport + scripted SOCK_DGRAM socket) and AsyncUDPNetworkClient. The real asyncio DatagramEndpoint + protocol run on a deterministic loop with solver-chosen arrivals and cancellations of a pending recvfrom: no datagram is lost.",
    design="4/C05",
    technique="symbolic execution of real code (CrossHair+z3): symbolic datagram bytes and packet contents, differential against a fresh protocol object",
)

CLAIMED["C04"] = dict(
    text="Bounded symbolic execution of the real SocketStreamTransport.send_all / send_all_from_iterable (sendmsg and join variants, SC_IOV_MAX real/2/0), adjust_leftover_buffer, _retry and StreamEndpoint.send_packet over a fake non-blocking socket: chunk vectors with empty chunks in every position (symbolic contents), solver-chosen partial-write sizes and would-block pattern. Asserted: the call returns, bytes accepted by the kernel == concatenation of the chunks, environment calls within the fuel bound (a spin is a violation); with a finite budget T and time as a solver variable the call ends within T. Asynchronous senders (AsyncStreamEndpoint.send_packet, the asyncio adapter's send_all / send_all_from_iterable, the default join implementation) over the real flow control on a deterministic loop: wire == concatenation, return only after the bytes reached the kernel.",
    design="4/C04",
    technique="symbolic execution of real code (CrossHair+z3): partial-write sizes, EAGAIN pattern, elapsed times as solver variables; fuel bound for termination",
    note="SSLStreamTransport (OpenSSL) is outside; the async TLS backlog is driven in C12.",
)
CLAIMED["C11"] = dict(
    text="Bounded symbolic execution with time as a solver variable: every selector wait and lock wait advances a virtual clock by a symbolic number of ticks. For _retry (via transport.recv/send), send_all / send_all_from_iterable, StreamEndpoint.recv_packet with a drip-fed frame (both receive paths) and the real TCPNetworkClient and UDPNetworkClient (send_packet, recv_packet, iter_received_packets with a contended lock; a selector that never reports readiness although a retry succeeds - the retry_interval contract): elapsed <= T, TimeoutError only when the whole budget is consumed, T = 0 never waits. recv-scratch shards: the buffer-filling receive path with a serializer whose buffer is scratch space refilled from offset 0 and as small as the reads (every read fills the whole buffer).",
    design="4/C11",
    technique="symbolic execution of real code (CrossHair+z3) with a virtual clock: elapsed times, readiness, would-block and lock contention as solver variables",
    note="Processing time between waits is modelled as zero; integer ticks; <= K would-blocks per call in the SX shards; the KS shard adds loop-head induction (no bound on wake-ups / partial writes) for _retry, send_all and the sendmsg loop.",
)

CLAIMED["C10"] = dict(
    text="Bounded symbolic execution on a deterministic event loop with real asyncio tasks of every receive layer named by the property: StreamReaderBufferedProtocol + AsyncioTransportStreamSocketAdapter (recv / recv_into), AsyncStreamEndpoint.recv_packet on both receive paths, the server request receivers, AsyncTCPNetworkClient.recv_packet, and two real AsyncTLSStreamTransport objects (real ssl objects) over an in-memory pipe (receive sizes also smaller than a TLS record); and the blocking layers (StreamEndpoint, StreamReceiverEndpoint, TCPNetworkClient recv_packet / iter_received_packets over SocketStreamTransport + scripted socket) whose timed receives end with TimeoutError at solver-chosen points inside a frame: a solver-chosen sequence of K events (loop iteration / kernel delivers k bytes / task.cancel() or expiry of the enclosing move_on_after scope) with symbolic arrival and receive sizes, then a drain. Asserted: everything returned by successful receives, concatenated, equals the stream (no byte or packet lost, duplicated or reordered), no receive raises, the drain terminates.",
    design="4/C10",
    technique="symbolic execution of real code (CrossHair+z3) over event schedules and sizes on a deterministic asyncio loop",
    note="Schedule/size space exhaustion: stream contents are concrete distinct bytes; the solver decides event order, arrival sizes and receive sizes. In the TLS shards OpenSSL runs concretely (only the schedule is symbolic; the assertion is about the Python glue around a cancelled want-read). Open known finding F-C10-connect (cancel during AsyncTCPNetworkClient's lazy connect) is excluded by signature and printed as KNOWN-FINDING.",
)

CLAIMED["C20"] = dict(
    text="Bounded symbolic execution of the real WriteFlowControl / writer_drain / AsyncioTransportStreamSocketAdapter.send_all / send_all_from_iterable over a fake asyncio transport on a deterministic loop: 2-3 sender tasks, a solver-chosen sequence of events (loop iteration, kernel takes j bytes, start sender, cancel a sender, fatal error) with symbolic immediate-accept and flush sizes, then a final resume or connection loss. Asserted: user-space buffering disabled (high-water mark 0); a send_all that returns did so only after its own bytes reached the kernel; after the final resume every non-cancelled sender returned; after a loss every unfinished sender raises OSError (no hang, no silent drop); cancelling one parked sender strands nobody. flow-nopause shards: a stream transport that cannot pause reading with the read buffer past its high-water mark (the protocol drops its transport reference) - a lost connection must still wake parked senders; flow-dgram-endpoint-empty: an empty datagram goes through the same flow control.",
    design="4/C20",
    technique="symbolic execution of real code (CrossHair+z3) over event schedules and sizes on a deterministic asyncio loop",
    note="Also driven: the datagram users of the same WriteFlowControl class (asyncio DatagramEndpoint.sendto, DatagramListenerSocketAdapter.send_to) with the same event alphabet.",
)

CLAIMED["C03"] = dict(
    text="Bounded symbolic execution of the real StreamEndpoint (over SocketStreamTransport + fake socket), AsyncStreamEndpoint (over an in-memory transport) and TCPNetworkClient (recv_packet, iter_received_packets): frames with symbolic payloads plus an incomplete tail, the peer closes after a symbolic number of bytes, kernel read sizes symbolic, both receive paths, several max_recv_size. Asserted: packets returned == frames fully contained before the close, in order, once; all delivered before the first end-of-stream; every later call reports end-of-stream again (a transport that blocks after its single EOF makes re-reading visible as a hang); the tail is never delivered. Also: AsyncTCPNetworkClient.recv_packet over an in-memory backend, a serializer whose packets may be None, and a pending SO_ERROR on the client's socket (never eats a packet already received). timed-eof shards: recv_packet(timeout=T), T in {0,1,2} ticks with a solver-chosen clock around the peer's close - a call may time out before end-of-stream was reported, never after.",
    design="4/C03",
    technique="symbolic execution of real code (CrossHair+z3): payload bytes, close position, read sizes and would-block pattern as solver variables",
)

CLAIMED["C15"] = dict(
    text="Bounded symbolic execution of the real AsyncStreamServer client coroutine, both request receivers, the async-generator actions and build_lowlevel_stream_server_handler on a deterministic loop (real task groups and timeout scopes) over an in-memory listener/transport: frames that are well-formed or malformed by solver choice, a solver-chosen sequence of events (loop iteration, client sends k bytes, time passes), handler shapes (1/2/unbounded requests per generator, yielded timeout None/0/5, on_connection coroutine or generator (also one that yields two different timeouts), handler closes the client). Asserted: requests and parse errors seen by the handler == reference decoding, in order, once, across generator restarts; TimeoutError only without a received complete request; every generator closed exactly once; transport closed and on_disconnection once; responses in order. hl-* shards: the close shapes through the real AsyncTCPNetworkServer (client API object), also with a transport close that raises a connection error swallowed by the handler; no generator is started after the handler closed the client.",
    design="4/C15",
    technique="symbolic execution of real code (CrossHair+z3) over event schedules, feed sizes and frame validity on a deterministic asyncio loop",
)

CLAIMED["C16"] = dict(
    text="Bounded symbolic execution of the real AsyncDatagramServer (serve, client coroutine, inner loop, task-done respawn), _ClientData, the real DatagramListenerProtocol and build_lowlevel_datagram_server_handler on a deterministic loop: two client addresses, a solver-chosen interleaving of arrivals and loop iterations, datagrams well-formed or malformed by solver choice, handler shapes (returns after k requests, suspends s iterations, yields timeout None/0, blocks forever for one client, lets a CancelledError escape; datagrams received before serve() starts; handlers through build_lowlevel_datagram_server_handler and as raw low-level generators). Asserted: per-address exactly-once in-order delivery of requests and parse errors, never two active generators per address, everything handled within the step budget, a blocked client does not delay the other, the server task never crashes.",
    design="4/C16",
    technique="symbolic execution of real code (CrossHair+z3) over arrival interleavings and datagram validity on a deterministic asyncio loop",
)

CLAIMED["C12"] = dict(
    text="Bounded symbolic execution on a deterministic loop of concurrent send_packet calls on the real AsyncTCPNetworkClient (FairLock, connect on first use), the server-side _ConnectedClientAPI, and the real AsyncTLSStreamTransport (write backlog, fair transport locks, concurrent receiver on the want-read path) over a pass-through stub SSL object, each with asyncio's lock and with the backend-independent FairLock (which is also driven alone: mutual exclusion, first-come-first-served, nobody stranded): 2-3 sender tasks x 1-2 two-chunk packets, every transport write suspends, a solver-chosen schedule of loop iterations, sender starts, peer bytes and one cancellation of a waiting sender, solver-chosen want-write faults. Asserted: every non-cancelled call returns; the wire is a sequence of whole packets, each once, per-sender order kept; nobody is stranded.",
    design="4/C12",
    technique="symbolic execution of real code (CrossHair+z3) over task schedules on a deterministic asyncio loop",
    note="asyncio objects only. The thread-safe blocking clients (threading locks) are NOT claimed: OS-thread interleavings cannot be made symbolic by any installed engine; their lock discipline (timed acquisition, release only when held) is covered single-threaded by C11.",
)

CLAIMED["C14"] = dict(
    text="Bounded symbolic execution with the crash point as a solver variable: each close path (stapled transports, aclose_forcefully, AsyncStreamEndpoint.aclose, server-side _ConnectedClientAPI.aclose, AsyncTCPNetworkClient.aclose, the asyncio socket adapter, AsyncTLSStreamTransport.aclose (peer that never answers, or whose close_notify already arrived; shutdown timeout generous or already expired) and .wrap with a peer that never answers or a local handshake failure over a wrapped transport whose send fails or stalls; AsyncTCPNetworkClient.aclose while a connection attempt is in flight; client / server-side client aclose while a concurrent send_packet holds the send lock) runs in a task on a deterministic loop; task.cancel() is injected at loop iteration k (symbolic; in the close2 shards a second cancellation at k2), combined with a solver-chosen fault (which wrapped close/send raises OSError or RuntimeError) and whether the TLS shutdown/handshake timeout expires first. Asserted: aclose() was invoked on every wrapped transport (both stapled halves even if the first raised; the wrapped transport after a failed or cancelled wrap()), is_closing() holds, a second aclose() returns promptly and normally. Open known findings F-C14-lockwait-client / -server (close cancelled while waiting for the send lock held by a stalled sender: nothing is closed) are excluded by signature and printed as KNOWN-FINDING.",
    design="4/C14",
    technique="symbolic execution of real code (CrossHair+z3): cancellation point, fault choice and timeout-first choice as solver variables on a deterministic asyncio loop",
    note="TLS paths use a stub SSL object (peer silent, or closing handshake completing at once); real OpenSSL shutdown is outside. Real sockets are outside (in-memory transports).",
)

CLAIMED["C19"] = dict(
    text="Bounded symbolic execution of the real staggered connection race (_staggered_race_connection_impl, _create_connection_impl, address interleaving/prioritisation) on a deterministic loop with real task groups and cancel scopes: 2-3 addresses (v4/v6 mixes), per-attempt completion delay (grid) and outcome (success / OSError) chosen by the solver, stagger delay 1.5 or inf, optional local address with bind failures, caller cancellation at a solver-chosen loop iteration. Socket creation is a counting fake. Asserted: a returned socket is open and every other created socket is closed; on failure (exception group) or cancellation every created socket is closed; the call always finishes.",
    design="4/C19",
    technique="symbolic execution of real code (CrossHair+z3): attempt outcomes, completion order (grid delays), bind faults and cancellation point as solver variables on a deterministic asyncio loop",
)

CLAIMED["C18"] = dict(
    text="Bounded symbolic execution of the real asynchronous server lifecycle (BaseAsyncNetworkServerImpl.serve_forever / server_activate / server_close / shutdown / is_serving / is_listening through the real AsyncTCPNetworkServer and AsyncUDPNetworkServer) on a deterministic loop with in-memory listeners whose creation suspends: a solver-chosen history of lifecycle calls (each in a new task) and loop iterations, from a cold server or from a serving one with a connected client whose disconnection hook suspends (UDP: a datagram whose handler suspends). Asserted: shutdown() returns only when serving has fully stopped; serve_forever() ends only as returned / ServerAlreadyRunning (another one really running) / ServerClosedError (close really called); listeners closed after server_close(); a stopped server serves again, a second concurrent serve_forever is refused; no call hangs or raises anything else. Threaded servers: only two sequential steps from constructed states - NetworkServerThread.run() sets the event start() waits on however serve_forever() ends; BaseStandaloneNetworkServerImpl.shutdown(T) returns only with the is-shutdown event set (T=None) or after a wait <= T.",
    design="4/C18",
    technique="symbolic execution of real code (CrossHair+z3) over lifecycle call histories on a deterministic asyncio loop",
    note="Asynchronous servers; of the threaded standalone servers (ThreadsPortal, threading.Event hand-offs between OS threads) only two sequential steps are checked - their thread interleavings are NOT claimed: no installed engine makes them symbolic. server_close() refused by the documented set-up guard (BusyResourceError) is treated as a refusal, not as a close.",
)

CLAIMED["C17"] = dict(
    text="Bounded symbolic execution of the real AsyncTCPNetworkServer and AsyncUDPNetworkServer (client initializers, exception fences, _ClientContext.__aexit__, lowlevel handler builders, task-group wiring) on a deterministic loop with in-memory listeners: one faulty client raises a solver-chosen exception class (plain, group, ConnectionError, ClientClosedError, TimeoutError, mixed groups) at a shard-chosen hook position (on_connection before/after an await, handle before the first yield / after a request / while handling a thrown parse error / re-raising it / parse error after a valid pipelined request / yielding an invalid timeout, on_disconnection; a ConnectionError of any flavour on receive while the handler waits, which must close the generator, not be thrown into it; TCP on both receive paths) or is reset right after accept, or has lost its peer address when the connection task starts, while a healthy client's traffic is interleaved by a solver-chosen schedule. Asserted: the server task keeps running, nothing reaches the event loop, the healthy client gets every response; TCP: faulty connection closed, on_disconnection ran iff on_connection completed; UDP: a later datagram of the faulty address is handled by a fresh generator. TCP: after the last client left the server still serves and a later client is served. listener-setup shards: the real asyncio ListenerSocketAdapter.serve() with a scripted sock_accept and an accepted-socket factory failing with a solver-chosen exception class (reset, ENOTCONN, EINVAL, EBADF, SSLError, TimeoutError, ValueError, group): serve() keeps running, healthy and later connections reach the handler, faulty sockets are closed.",
    design="4/C17",
    technique="symbolic execution of real code (CrossHair+z3): exception class and schedule as solver variables on a deterministic asyncio loop",
    note="Exception subclasses and groups only (KeyboardInterrupt/SystemExit outside); TLS handshake failures outside (real OpenSSL); kernel RST modelled as ConnectionResetError on first read.",
)

CLAIMED["C13"] = dict(
    text="Bounded exploration, driven by the solver, of cancel-scope programs executed by the real CancelScope / TaskUtils / AsyncIOBackend code on a deterministic loop with real asyncio tasks and timers: a descriptor (1-3 nested scopes of kinds move_on_after / timeout / explicit cancel / reschedule / never cancelled, body sleeps with an optional ignore_cancellation section, optional external task.cancel()) with all durations from a small grid is decoded into a program; in addition statement programs (sequences over sleep / shielded yield / shielded sleep / shielded await of a failing future / scope_k.cancel()) run inside nests of up to 3 scopes; invariants taken directly from the statement are asserted per run (no sleep resumes after an enclosing scope became cancelled; a deadline that passed cancelled the scope; abandoned body => caught or an enclosing cancel; un-cancelled scopes neither catch nor swallow; timeout() raises iff caught; no leftover cancellation after the scopes; shielded sections run to completion).",
    design="4/C13",
    technique="symbolic execution of real code (CrossHair+z3): the solver exhausts the bounded descriptor x timing space; invariant oracle",
    note="Honest statement of level: every path is one concrete program + timing (values must be concrete when they reach CPython's C timer heap); the solver's role is exhaustive, gap-free coverage of the bounded descriptor space. Ties (two cancellations pending at one checkpoint) are left unconstrained, as the statement allows.",
)

NOT_APPLICABLE = {
    "C08": "TLS byte-transparency/encryption is decided inside OpenSSL's record layer (C code, cryptography): it cannot be executed symbolically by any installed engine; stubbing it would verify the stub, and running real OpenSSL realises every symbolic size (degenerates to concrete enumeration). See DESIGN.md section 5.",
    "C09": "Whether a cut at a byte offset of a real ciphertext stream yields SSLEOFError / SSLZeroReturnError / a protocol error is OpenSSL's partial-record parsing, not encodable; the EasyNetwork part is a three-way exception mapping. See DESIGN.md section 5.",
}
PENDING = "check not built yet in this session (planned with the same engine, see DESIGN.md section 4); not claimed until its check exists"

def main():
    props = [json.loads(l) for l in open(os.path.join(HERE, "properties.jsonl"))]
    checks, na = [], []
    for p in props:
        pid = p["id"]
        if pid in CLAIMED:
            c = CLAIMED[pid]
            checks.append({
                "property_id": pid,
                "quick_cmd": f"./check {pid} --tier quick",
                "thorough_cmd": f"./check {pid} --tier thorough",
                "evidence_file": f"evidence/{pid}.json",
                "replay_cmd_template": f"./check {pid} --replay {{path}}",
                "engine": "sx",
                "level_claimed": {"category": "other", "text": c["text"], "design_ref": c["design"]},
                "level_note": SX_NOTE + (" " + c["note"] if c.get("note") else ""),
                "technique": c["technique"],
            })
        else:
            na.append({"property_id": pid, "reason": NOT_APPLICABLE.get(pid, PENDING)})
    m = {
        "version": 1,
        "setup_cmd": "./bootstrap.sh",
        "hooks": {
            "guard": "EASYNETWORK_VERIF",
            "enable": "no source hooks are needed: checks import /repo/src in place (editable install) and reach private state through name-mangled attributes; EASYNETWORK_VERIF=1 is exported by ./check but nothing in /repo reads it",
            "baseline_off_cmd": "cd /repo && /venv/bin/python -m pytest -ra -q -p no:cacheprovider --timeout=900 --continue-on-collection-errors",
            "source_commits": [],
            "add_only": True,
        },
        "engines": [
            {"name": "sx", "path": "sx/", "serves_properties": sorted(CLAIMED), "kind_free_text": "solver-based: symbolic execution of the real Python code (CrossHair proxies, z3), sharded, with per-path concrete validation and clean-interpreter replay"},
            {"name": "ks", "path": "ks/", "serves_properties": ["C04", "C11"], "kind_free_text": "solver-based: Python AST of the real retry/timeout loop bodies -> z3 (Reals), loop-head induction from an arbitrary state satisfying the budget invariant; translator validated against the real function on every run; sat obligations replayed on the real function"},
        ],
        "checks": checks,
        "not_applicable": na,
        "notes": "Solver-based checking of the real code. Genuine defects found are recorded in known_findings.json (fixed: repaired by a 'fix:' commit in /repo; open: KNOWN-FINDING lines). See DESIGN.md.",
    }
    json.dump(m, open(os.path.join(HERE, "MANIFEST.json"), "w"), indent=1)
    print("claimed:", sorted(CLAIMED), "n/a:", len(na))

if __name__ == "__main__":
    main()
