"""Shared pieces for the stream-level properties (C01, C02, C06, C07): harness serializers built on
the *real* base classes, drivers for both real consumers, and the reference frame decoder.

Nothing here re-implements EasyNetwork logic: ``Raw*`` classes only supply the abstract
``serialize``/``deserialize`` leaf (identity + a reject marker), everything else is the repo's code.
"""

from __future__ import annotations

from easynetwork.exceptions import DeserializeError, StreamProtocolParseError
from easynetwork.lowlevel._stream import BufferedStreamDataConsumer, StreamDataConsumer, StreamDataProducer
from easynetwork.protocol import BufferedStreamProtocol, StreamProtocol
from easynetwork.serializers.base_stream import AutoSeparatedPacketSerializer, FixedSizePacketSerializer

MARK = 0x21  # b"!" : payloads starting with it are "malformed" for the Raw serializers

SEPS = {1: b"\n", 2: b"\r\n", 3: b"\x00\xff\x00"}


class RawSep(AutoSeparatedPacketSerializer):
    """identity payloads over the real separator framing; rejects payloads starting with MARK."""

    __slots__ = ()

    def serialize(self, packet):
        return packet

    def deserialize(self, data):
        if len(data) > 0 and data[0] == MARK:
            raise DeserializeError("marked payload")
        return data


class RawFixed(FixedSizePacketSerializer):
    __slots__ = ()

    def serialize(self, packet):
        return packet

    def deserialize(self, data):
        if len(data) > 0 and data[0] == MARK:
            raise DeserializeError("marked payload")
        return data


# --------------------------------------------------------------------------------------
# drivers (mirror what _DataReceiverImpl / _BufferedReceiverImpl do with a consumer)


class Crash(Exception):
    """A non-parse-error exception escaped the consumer (RuntimeError 'crashed', IndexError, ...)."""


def _drain(consumer, arg, events, classify):
    while True:
        try:
            pkt = consumer.next(arg)
        except StopIteration:
            return
        except StreamProtocolParseError as e:
            events.append(("err", classify(e)))
        else:
            events.append(("pkt", pkt))
        arg = None


def err_kind(e: StreamProtocolParseError) -> str:
    return type(e.error).__name__


def drive_copy(protocol, chunks, classify=err_kind):
    """Feed chunks to the real copying consumer. Returns (events, leftover bytes)."""
    c = StreamDataConsumer(protocol)
    ev: list = []
    for ch in chunks:
        if len(ch) > 0:
            _drain(c, ch, ev, classify)
    return ev, bytes(c.get_buffer())


def drive_buffered(protocol, chunks, hint, fills=None, classify=err_kind):
    """Feed chunks to the real buffer-filling consumer.

    ``fills`` (optional list of ints >= 1) caps each individual write into the consumer's buffer
    (models recv_into() returning fewer bytes than the buffer has room for).
    Returns (events, leftover bytes, max buffer_size seen).
    """
    c = BufferedStreamDataConsumer(protocol, hint)
    ev: list = []
    k = 0
    maxbuf = 0
    for ch in chunks:
        pos = 0
        total = len(ch)
        while pos < total:
            _drain(c, None, ev, classify)
            wb = c.get_write_buffer()
            with memoryview(wb) as view:
                room = len(view)
                n = total - pos
                if room < n:
                    n = room
                if fills is not None and k < len(fills):
                    f = fills[k]
                    if f < n:
                        n = f
                k += 1
                view[:n] = ch[pos : pos + n]
            pos += n
            bs = c.buffer_size
            if bs > maxbuf:
                maxbuf = bs
            _drain(c, n, ev, classify)
    left = c.get_value()
    return ev, (b"" if left is None else left), maxbuf


def split_at(stream, cuts):
    """stream -> pieces at the (sorted, possibly symbolic) cut positions."""
    pieces = []
    prev = 0
    for c in cuts:
        pieces.append(stream[prev:c])
        prev = c
    pieces.append(stream[prev:])
    return pieces


def sorted_cuts(S, n_cuts: int, total: int):
    """n_cuts symbolic cut positions 0 <= c1 <= ... <= total."""
    cuts = []
    lo = 0
    for i in range(n_cuts):
        c = S.int(0, total, f"cut{i}")
        S.assume(c >= lo)
        cuts.append(c)
        lo = c
    return cuts


# --------------------------------------------------------------------------------------
# reference decoding of a separator-framed stream (the oracle of C02)


def ref_frames(stream, sep: bytes):
    """[(payload, terminated)] split left to right at non-overlapping separator occurrences."""
    out = []
    pos = 0
    n = len(stream)
    seplen = len(sep)
    while True:
        idx = stream.find(sep, pos)
        if idx < 0:
            out.append((stream[pos:], False))
            return out
        out.append((stream[pos:idx], True))
        pos = idx + seplen


def ref_events_rawsep(stream, sep: bytes):
    ev = []
    tail = b""
    for payload, terminated in ref_frames(stream, sep):
        if not terminated:
            tail = payload
            break
        if len(payload) > 0 and payload[0] == MARK:
            ev.append(("err", "IncrementalDeserializeError"))
        else:
            ev.append(("pkt", payload))
    return ev, tail


def events_equal(a, b):
    """Structural equality of event lists whose packet payloads may be symbolic bytes."""
    if len(a) != len(b):
        return False
    for x, y in zip(a, b):
        if x[0] != y[0]:
            return False
        if x[0] == "pkt":
            if not (bytes(x[1]) == bytes(y[1])):
                return False
        elif x[1] != y[1]:
            return False
    return True


def skel(events):
    """Outcome skeleton: event kinds + payload lengths / error kinds (no contents)."""
    return [(k, len(v) if k == "pkt" else v) for k, v in events]
