"""C20 - Sending applies backpressure and never hangs on a dead connection.

The real WriteFlowControl / StreamReaderBufferedProtocol.writer_drain / AsyncioTransportStreamSocketAdapter.send_all over
FakeAsyncioTransport on the deterministic loop.  n sender tasks each send one message; a solver-chosen sequence of events
    step | flush j (the kernel takes j more bytes: the peer reads) | start the next sender | cancel sender i | lose (fatal error)
is applied, then the run is finished in one of three ways (resume: the peer reads everything; lose-none / lose-exc: the
connection is lost without / with an exception).  How many bytes the kernel takes immediately on write() is symbolic.
Asserted:
  * the adapter disabled user-space buffering (write-buffer high-water mark == 0);
  * a send_all() that returns normally returned only after all of ITS bytes were handed to the kernel;
  * after the final resume every sender that was not cancelled has returned; after a connection loss every sender that had
    not returned raises an OSError (never hangs, never returns normally with bytes dropped); a cancelled sender ends cancelled;
  * cancelling one parked sender does not strand the others; no waiter is left registered.
"""

from __future__ import annotations

import asyncio

from easynetwork.lowlevel.api_async.backend._asyncio.stream.socket import AsyncioTransportStreamSocketAdapter, StreamReaderBufferedProtocol

from sx.engine import Outcome

from .asyncenv import FakeAsyncioTransport, backend, loop_context

NONTRIVIAL_RULE = "a sender was parked (write paused) at some point, a sender was cancelled while parked, or the connection was lost with parked senders"
STUBS = ["DetLoop + FakeAsyncioTransport (asyncio.Transport write-side contract: pause_writing/resume_writing called synchronously when the buffer crosses the marks; connection_lost once, via call_soon)"]
ASSUMPTIONS = ["the transport honours set_write_buffer_limits and the pause/resume discipline of asyncio's selector transport"]
BOUNDS = {"quick": "2-3 senders, messages of 2 bytes, K <= 4 events + final phase", "thorough": "3 senders, K <= 6"}
OUTSIDE = "the real _SelectorSocketTransport buffer, trio; for the datagram protocols only the park/resume/fail/cancel clauses are asserted (they keep asyncio's default buffer limits, so 'handed to the OS on return' is not promised for them)"


class _FakeDgramTransport(FakeAsyncioTransport):
    """same buffer/pause contract, datagram flavour (sendto)"""

    def sendto(self, data, addr=None):
        self.write(data)


def flow(senders: int, K: int, final: str, msglen: int = 2, prefix: list = (), target: str = "stream", api: str = "all", nopause: bool = False, empty_from: int = 99):
    """target: stream | dgram-endpoint | dgram-listener (the two asyncio datagram protocols share WriteFlowControl; they keep
    asyncio's default write-buffer limits, so the harness lowers the fake transport's high-water mark to 1 byte to park senders)"""

    def scenario(S):
        with loop_context() as loop:
            be = backend()
            if target == "stream":
                if nopause:
                    # a transport that cannot pause reading (NotImplementedError): once the read buffer passes its high-water mark
                    # the protocol forgets the transport for reading purposes - the write side must be unaffected
                    class _P(StreamReaderBufferedProtocol):
                        max_size = 4096

                    p = _P(loop=loop)
                    tr = FakeAsyncioTransport(loop, p)

                    def _cannot_pause():
                        raise NotImplementedError

                    tr.pause_reading = _cannot_pause
                    p.connection_made(tr)
                    incoming = p.get_buffer(-1)
                    p.buffer_updated(len(incoming))
                else:
                    p = StreamReaderBufferedProtocol(loop=loop)
                    tr = FakeAsyncioTransport(loop, p)
                    p.connection_made(tr)
                adapter = AsyncioTransportStreamSocketAdapter(be, tr, p)
                high_after_init = tr.high
                if api == "iter":  # the other entry point of the adapter: send_all_from_iterable (writelines)
                    real = adapter

                    class _It:
                        @staticmethod
                        async def send_all(data):
                            await real.send_all_from_iterable(iter([data[:1], data[1:]]))

                    adapter = _It
            else:
                import asyncio as _aio

                from easynetwork.lowlevel.api_async.backend._asyncio.datagram.endpoint import DatagramEndpoint, DatagramEndpointProtocol
                from easynetwork.lowlevel.api_async.backend._asyncio.datagram.listener import DatagramListenerProtocol

                if target == "dgram-endpoint":
                    rq, eq = _aio.Queue(), _aio.Queue()
                    p = DatagramEndpointProtocol(loop=loop, recv_queue=rq, exception_queue=eq)
                    tr = _FakeDgramTransport(loop, p)
                    p.connection_made(tr)
                    ep = DatagramEndpoint(tr, p, recv_queue=rq, exception_queue=eq)

                    class _A:
                        @staticmethod
                        async def send_all(data):
                            await ep.sendto(data, None)

                else:
                    p = DatagramListenerProtocol(loop=loop)
                    tr = _FakeDgramTransport(loop, p)
                    p.connection_made(tr)

                    class _A:
                        @staticmethod
                        async def send_all(data):
                            # what DatagramListenerSocketAdapter.send_to does
                            tr.sendto(data, ("peer", 1))
                            await p.writer_drain()

                adapter = _A
                tr.set_write_buffer_limits(0)  # harness: scale the default 64 KiB mark down so that a few bytes park the sender
                high_after_init = 0
            st = {"written": 0}
            tr.accept_now = lambda n: S.int(0, n, "now")
            info = []  # per sender: dict(task, end offset, state)

            def handed():
                n = 0
                for w in tr.wire:
                    n += len(w)
                return n

            async def sender(i):
                rec = info[i]
                mlen = 0 if i >= empty_from else msglen  # empty datagrams are legitimate payloads
                data = bytes([97 + i]) * mlen
                try:
                    # offsets are assigned when the bytes are given to the transport (write() is synchronous in send_all)
                    rec["end"] = st["written"] + mlen if not tr.force_closed and not tr.conn_lost else None
                    if rec["end"] is not None:
                        st["written"] += mlen
                    await adapter.send_all(data)
                    rec["state"] = "returned"
                    rec["handed_at_return"] = handed()
                    rec["lost_at_return"] = tr.force_closed or tr.conn_lost
                except asyncio.CancelledError:
                    rec["state"] = "cancelled"
                    raise
                except OSError as e:
                    rec["state"] = "oserror"
                except Exception as e:  # noqa: BLE001
                    rec["state"] = "raised:" + type(e).__name__

            def start():
                if len(info) < senders:
                    rec = {"state": "pending", "end": None, "parked": False}
                    info.append(rec)
                    rec["task"] = loop.create_task(sender(len(info) - 1))

            start()
            cancelled = 0
            lost_mid = False
            parked_seen = 0
            cancel_parked = 0
            for i in range(K):
                c = prefix[i] if i < len(prefix) else S.choice(5, f"ev{i}")
                if p._writing_paused():
                    parked_seen += 1
                if c == 0:
                    loop.step()
                elif c == 1:
                    tr.flush(S.int(1, 3, f"fl{i}"))
                elif c == 2:
                    start()
                elif c == 3:
                    if info and cancelled == 0:
                        j = S.choice(len(info), f"who{i}")
                        t = info[j]["task"]
                        if not t.done():
                            cancelled += 1
                            info[j]["cancel_requested"] = True
                            if p._writing_paused():
                                cancel_parked += 1
                            t.cancel()
                    else:
                        loop.step()
                else:
                    if not lost_mid and final != "resume":
                        lost_mid = True
                        tr.lose(ConnectionResetError(104, "reset") if final == "lose-exc" else None)
                    else:
                        loop.step()
            while len(info) < senders:
                start()
            loop.step()  # let freshly started senders reach their drain()
            # ---- final phase ---------------------------------------------------------------------
            if final == "resume":
                for _ in range(4 * senders + 8):
                    tr.flush(64)
                    loop.step()
            else:
                if not lost_mid:
                    tr.lose(ConnectionResetError(104, "reset") if final == "lose-exc" else None)
                for _ in range(4 * senders + 8):
                    loop.step()
            ok = high_after_init == 0
            problems = []
            if high_after_init != 0:
                problems.append("user-space buffering not disabled")
            for j, rec in enumerate(info):
                t = rec["task"]
                if not t.done():
                    ok = False
                    problems.append(f"sender {j} never finished (hang)")
                    continue
                state = rec["state"]
                if t.cancelled():
                    state = rec["state"] = "cancelled"  # (possibly before its first step)
                if rec.get("cancel_requested"):
                    if state not in ("cancelled", "returned", "oserror"):
                        ok = False
                        problems.append(f"cancelled sender {j}: {state}")
                elif state == "returned":
                    if rec["end"] is None:
                        ok = False
                        problems.append(f"sender {j} returned normally although it wrote on a dead connection (bytes dropped)")
                    elif rec["handed_at_return"] < rec["end"] and target == "stream":
                        ok = False
                        problems.append(f"sender {j} returned before its bytes were handed to the kernel" + (" (dead connection: bytes dropped)" if rec.get("lost_at_return") else ""))
                elif state == "oserror":
                    if final == "resume":
                        ok = False
                        problems.append(f"sender {j} failed although the peer read everything")
                else:
                    ok = False
                    problems.append(f"sender {j}: {state}")
            # private bookkeeping, looked at only if it still exists under that name (a refactor must not break the check)
            flow_obj = getattr(p, "_StreamReaderBufferedProtocol__write_flow", None) or getattr(p, "_DatagramEndpointProtocol__write_flow", None) or getattr(p, "_DatagramListenerProtocol__write_flow", None)
            waiters = len(getattr(flow_obj, "_WriteFlowControl__drain_waiters", ()))
            if waiters:
                ok = False
                problems.append("drain waiters left registered")
            tags = []
            if parked_seen:
                tags.append("sender-parked")
            if cancel_parked:
                tags.append("cancel-while-parked")
            if lost_mid:
                tags.append("lost-mid-run")
            return Outcome(ok=ok, skeleton=([r["state"] for r in info], handed(), waiters), tags=tuple(tags), detail={"problems": problems, "senders": [{k: v for k, v in r.items() if k != "task"} for r in info], "handed": handed(), "final": final})

    return scenario


def shards(tier: str):
    import itertools

    out = []
    quick = tier == "quick"
    B = 200 if quick else 1500

    def add(name, params, cost):
        out.append({"name": name, "scenario": "props.c20:flow", "params": params, "budget": B, "cost": cost, "per_path_timeout": 30})

    K = 4 if quick else 6
    for final in ("resume", "lose-none", "lose-exc"):
        for senders in (2, 3):
            if quick and senders == 3 and final == "lose-none":
                continue
            for pre in itertools.product(range(5), repeat=(2 if senders == 3 else 1) if quick else 2):
                if final == "resume" and 4 in pre:
                    continue  # 'lose' events only exist in the lose finals
                add(f"flow/{final}/s{senders}/K{K}/pre{''.join(map(str, pre))}", dict(senders=senders, K=K, final=final, prefix=list(pre)), cost=5 ** (K - len(pre)))
    for final in ("resume", "lose-exc"):
        for pre in range(5):
            if final == "resume" and pre == 4:
                continue
            add(f"flow-iter/{final}/s2/K{K}/pre{pre}", dict(senders=2, K=K, final=final, prefix=[pre], api="iter"), cost=5 ** (K - 1))
    for target in ("dgram-endpoint", "dgram-listener"):
        for final in ("resume", "lose-exc"):
            for pre in range(5):
                if final == "resume" and pre == 4:
                    continue
                add(f"flow-{target}/{final}/s2/K{K}/pre{pre}", dict(senders=2, K=K, final=final, prefix=[pre], target=target), cost=5 ** (K - 1))
                if target == "dgram-endpoint" and final == "lose-exc":
                    # the second sender's payload is an empty datagram: it goes through the same flow control
                    add(f"flow-{target}-empty/{final}/s2/K{K}/pre{pre}", dict(senders=2, K=K, final=final, prefix=[pre], target=target, empty_from=1), cost=5 ** (K - 1))
    for pre in range(5):
        # stream transport that cannot pause reading, read buffer already past its high-water mark
        add(f"flow-nopause/lose-exc/s2/K{K}/pre{pre}", dict(senders=2, K=K, final="lose-exc", prefix=[pre], nopause=True), cost=5 ** (K - 1))
    return out
