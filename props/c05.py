"""C05 - Datagrams: one packet per datagram, boundaries preserved, errors isolated.

Obligations:
  exact     build_packet_from_datagram(d) for N symbolic bytes returns a packet iff d is exactly one complete frame of the
            (harness, incremental) serializer used through its derived one-shot interface: missing data and extra data are
            both rejected; make_datagram(p) -> d -> p round-trips for symbolic p.
  exchange  a symbolic sequence of k datagrams (each either a packet sent through send_packet or arbitrary injected bytes)
            received through ONE endpoint yields, position by position, what a FRESH endpoint yields for that datagram
            alone; sent packets come back equal; exactly one transport.send per send_packet (payload = make_datagram(p),
            empty payloads included), exactly one transport.recv per recv_packet, nothing left in the queue.
            Sync and async endpoints (the async coroutines are stepped directly: the in-memory transport never suspends).
"""

from __future__ import annotations

import math

from easynetwork.exceptions import DatagramProtocolParseError, DeserializeError
from easynetwork.lowlevel.api_async.endpoints.datagram import AsyncDatagramEndpoint
from easynetwork.lowlevel.api_async.transports.abc import AsyncDatagramTransport
from easynetwork.lowlevel.api_sync.endpoints.datagram import DatagramEndpoint
from easynetwork.lowlevel.api_sync.transports.abc import DatagramTransport
from easynetwork.protocol import DatagramProtocol
from easynetwork.serializers.abc import AbstractIncrementalPacketSerializer
from easynetwork.serializers.json import JSONSerializer
from easynetwork.serializers.line import StringLineSerializer
from easynetwork.serializers.pickle import PickleSerializer
from easynetwork.serializers.tools import GeneratorStreamReader
from easynetwork.serializers.wrapper.base64 import Base64EncoderSerializer
from easynetwork.serializers.wrapper.compressor import ZlibCompressorSerializer

from sx.engine import Outcome

from . import streamlib as L
from .c01 import IdentitySerializer, ToyCompressor

NONTRIVIAL_RULE = "a malformed datagram (parse error) occurred, or >= 2 datagrams were exchanged"
STUBS = [
    "FakeDatagramSocket (udpclient shards): a real, never connected SOCK_DGRAM socket object whose send/recv are a FIFO of whole datagrams, under the REAL SocketDatagramTransport and UDPNetworkClient; in-memory backend answering create_udp_endpoint for the REAL AsyncUDPNetworkClient (audpclient shards)",
    "MemDatagramTransport / AsyncMemDatagramTransport: in-memory FIFO of whole datagrams standing for the kernel UDP socket (contract: send(d) enqueues exactly d, recv() pops exactly one datagram)",
    "LenPrefixed / SepIncr: harness incremental serializers written only with GeneratorStreamReader, used through the one-shot interface derived by AbstractIncrementalPacketSerializer",
]
ASSUMPTIONS = [
    "valid packet for StringLineSerializer one-shot mode = text not ending with the newline sequence (deserialize strips trailing newlines by contract)",
    "kernel truncation at max_datagram_size is outside; the asyncio DatagramEndpoint/Protocol pair is driven over a fake asyncio datagram transport (asyncio-endpoint shards)",
]
BOUNDS = {"quick": "datagrams of <= 6 symbolic bytes, sequences of <= 4 datagrams", "thorough": "<= 8 bytes, <= 5 datagrams"}
OUTSIDE = "real UDP sockets, datagram size limits, cbor/msgpack"


class LenPrefixed(AbstractIncrementalPacketSerializer):
    """[n][n bytes]; payloads starting with MARK are rejected (DeserializeError from the incremental generator)."""

    __slots__ = ()

    def incremental_serialize(self, packet):
        yield bytes([len(packet)])
        yield packet

    def incremental_deserialize(self):
        from easynetwork.exceptions import IncrementalDeserializeError

        reader = GeneratorStreamReader()
        header = yield from reader.read_exactly(1)
        n = header[0]
        body = (yield from reader.read_exactly(n)) if n else b""
        rest = reader.read_all()
        if n and body[0] == L.MARK:
            raise IncrementalDeserializeError("marked", rest)
        return body, rest


class SepIncr(AbstractIncrementalPacketSerializer):
    __slots__ = ()

    def incremental_serialize(self, packet):
        yield packet + b"\n"

    def incremental_deserialize(self):
        reader = GeneratorStreamReader()
        data = yield from reader.read_until(b"\n", limit=64, keep_end=False)
        return data, reader.read_all()


class MemDatagramTransport(DatagramTransport):
    def __init__(self):
        self.queue = []
        self.sends = 0
        self.recvs = 0
        self.closed = False

    def close(self):
        self.closed = True

    def is_closed(self):
        return self.closed

    def recv(self, timeout):
        self.recvs += 1
        if not self.queue:
            raise TimeoutError
        return self.queue.pop(0)

    def send(self, data, timeout):
        self.sends += 1
        self.queue.append(bytes(data))

    @property
    def extra_attributes(self):
        return {}


class AsyncMemDatagramTransport(AsyncDatagramTransport):
    def __init__(self):
        self.queue = []
        self.sends = 0
        self.recvs = 0
        self.closed = False

    async def aclose(self):
        self.closed = True

    def is_closing(self):
        return self.closed

    async def recv(self):
        self.recvs += 1
        if not self.queue:
            raise TimeoutError
        return self.queue.pop(0)

    async def send(self, data):
        self.sends += 1
        self.queue.append(bytes(data))

    def backend(self):
        raise NotImplementedError

    @property
    def extra_attributes(self):
        return {}


def run_coro(coro):
    try:
        coro.send(None)
    except StopIteration as e:
        return e.value
    coro.close()
    raise RuntimeError("coroutine suspended although the in-memory transport never suspends")


import contextlib


@contextlib.contextmanager
def _endpoint(S, mode: str, proto):
    """yields (tr, send, recv) for the receive/send layer `mode`:
    sync / async: the low-level endpoints over the in-memory FIFO; udpclient: the real UDPNetworkClient over the real
    SocketDatagramTransport + a scripted SOCK_DGRAM socket object; audpclient: the real AsyncUDPNetworkClient (lazy connection)
    over an in-memory backend on the deterministic loop."""
    if mode == "sync":
        tr = MemDatagramTransport()
        ep = DatagramEndpoint(tr, proto)
        yield tr, (lambda p: ep.send_packet(p, timeout=math.inf)), (lambda: ep.recv_packet(timeout=0))
    elif mode == "async":
        tr = AsyncMemDatagramTransport()
        ep = AsyncDatagramEndpoint(tr, proto)
        yield tr, (lambda p: run_coro(ep.send_packet(p))), (lambda: run_coro(ep.recv_packet()))
    elif mode == "udpclient":
        import easynetwork.clients.udp as udp_mod

        from .syncenv import Env, FakeDatagramSocket, StubSelector

        env = Env(S, fuel=200, max_eagain=0)
        sock = FakeDatagramSocket(env)
        saved = udp_mod.SocketDatagramTransport
        try:
            udp_mod.SocketDatagramTransport = lambda s, retry_interval, **kw: saved(s, retry_interval, selector_factory=lambda: StubSelector(env), **kw)
            client = udp_mod.UDPNetworkClient(sock, proto)
            yield sock, (lambda p: client.send_packet(p)), (lambda: client.recv_packet(timeout=0))
        finally:
            udp_mod.SocketDatagramTransport = saved
            sock.really_close()
    elif mode == "audpclient":
        from easynetwork.clients.async_udp import AsyncUDPNetworkClient
        from easynetwork.lowlevel.api_async.backend._asyncio.backend import AsyncIOBackend
        from easynetwork.lowlevel.socket import INETSocketAttribute

        from .asyncenv import _FakeTransportSocket, loop_context

        class _Sock(_FakeTransportSocket):
            type = 2

        class _Tr(AsyncMemDatagramTransport):
            def backend(self):
                return be

            @property
            def extra_attributes(self):
                sock = _Sock()
                return {
                    INETSocketAttribute.socket: lambda: sock,
                    INETSocketAttribute.family: lambda: 2,
                    INETSocketAttribute.sockname: lambda: ("127.0.0.1", 1),
                    INETSocketAttribute.peername: lambda: ("127.0.0.1", 2),
                }

        class _Backend(AsyncIOBackend):
            async def create_udp_endpoint(self, host, port, **kw):
                await self.coro_yield()
                return tr

        with loop_context() as loop:
            be = _Backend()
            tr = _Tr()
            client = AsyncUDPNetworkClient(("host", 1), proto, be)

            def arun(coro):
                t = loop.create_task(coro)
                loop.run_until_idle(60)
                if not t.done():
                    t.cancel()
                    loop.run_until_idle(60)
                    raise RuntimeError("client call did not finish although the in-memory transport never blocks")
                return t.result()

            try:
                yield tr, (lambda p: arun(client.send_packet(p))), (lambda: arun(client.recv_packet()))
            finally:
                t = loop.create_task(client.aclose())
                loop.run_until_idle(60)
    else:
        raise ValueError(mode)


def _ser(kind):
    if kind == "lenprefixed":
        return LenPrefixed()
    if kind == "sepincr":
        return SepIncr()
    if kind == "rawsep":
        return L.RawSep(b"\r\n", limit=64)
    if kind == "rawfixed":
        return L.RawFixed(2)
    if kind == "toycomp":
        return ToyCompressor()
    if kind.startswith("line"):
        nl = kind.split("-")[1]
        return StringLineSerializer(nl, encoding="ascii")
    raise ValueError(kind)


def exact(kind: str, N: int):
    """N symbolic bytes: accepted iff exactly one complete frame; for the length-prefixed serializer the oracle is explicit."""

    def scenario(S):
        ser = _ser(kind)
        proto = DatagramProtocol(ser)
        d = S.bytes_in(N, (0, 1, 2, 3, 4, 5, L.MARK, 0x41, 0x0A), "d") if kind in ("lenprefixed", "toycomp") else S.bytes(N, "d")
        try:
            pkt = proto.build_packet_from_datagram(d)
            res = ("pkt", pkt)
        except DatagramProtocolParseError:
            res = ("err", None)
        except Exception as e:  # noqa: BLE001
            return Outcome(ok=False, skeleton=("escaped", type(e).__name__), tags=("exception",), detail={"escaped": repr(e)})
        if kind == "lenprefixed":
            valid = N >= 1 and d[0] == N - 1 and not (N >= 2 and d[1] == L.MARK)
            ok = (res[0] == "pkt") == valid
            if ok and valid:
                ok = res[1] == d[1:]
        elif kind == "sepincr":
            valid = N >= 1 and d.find(b"\n") == N - 1
            ok = (res[0] == "pkt") == valid
            if ok and valid:
                ok = res[1] == d[: N - 1]
        elif kind == "toycomp":
            valid = N >= 1 and d[0] == N - 1
            ok = (res[0] == "pkt") == valid
            if ok and valid:
                ok = res[1] == d[1:]
        else:
            ok = True
        # whatever was accepted must re-serialize to the same datagram family: accepted => make_datagram(pkt) parses back to pkt
        if ok and res[0] == "pkt" and kind in ("lenprefixed", "sepincr", "toycomp"):
            ok = proto.build_packet_from_datagram(proto.make_datagram(res[1])) == res[1]
        return Outcome(ok=ok, skeleton=res[0], tags=("parse-error",) if res[0] == "err" else ("accepted",), detail={"datagram": d, "result": res})

    return scenario


def _valid_packet(S, kind, n, name):
    if kind.startswith("line"):
        p = S.ascii(n, name)
        nl = {"LF": "\n", "CR": "\r", "CRLF": "\r\n"}[kind.split("-")[1]]
        S.assume(not p.endswith(nl))
        return p
    p = S.bytes(n, name)
    if kind in ("rawsep", "rawfixed", "lenprefixed"):
        if n:
            S.assume(p[0] != L.MARK)
    if kind == "sepincr":
        S.assume(p.find(b"\n") < 0)
    return p


def exchange(kind: str, plan: list, mode: str = "sync"):
    """plan: list of ("pkt", n) | ("raw", n): datagram i is a valid packet of n symbolic units sent with send_packet, or n raw bytes injected."""

    def scenario(S):
        ser = _ser(kind)
        proto = DatagramProtocol(ser)
        with _endpoint(S, mode, proto) as (tr, send, recv):
            return body(S, tr, send, recv)

    def body(S, tr, send, recv):
        expected = []
        nsend = 0
        try:
            for i, (what, n) in enumerate(plan):
                if what == "pkt":
                    p = _valid_packet(S, kind, n, f"p{i}_")
                    before = len(tr.queue)
                    send(p)
                    nsend += 1
                    if len(tr.queue) != before + 1:
                        return Outcome(ok=False, skeleton=("send-count", i), tags=("send",), detail={"problem": "send_packet did not produce exactly one datagram", "queue": list(tr.queue), "packet": p})
                    if not (tr.queue[-1] == DatagramProtocol(_ser(kind)).make_datagram(p)):
                        return Outcome(ok=False, skeleton=("send-payload", i), tags=("send",), detail={"problem": "datagram payload differs from make_datagram(packet)", "queue": list(tr.queue)})
                    expected.append(("pkt", p))
                else:
                    if kind in ("lenprefixed", "toycomp"):
                        # header byte drives a slice length in the harness serializer: keep its range small
                        d = S.bytes_in(n, (0, 1, 2, 3, L.MARK, 0x41), f"r{i}_")
                    else:
                        d = S.bytes(n, f"r{i}_")
                    tr.queue.append(d)
                    # reference: a fresh protocol object sees only this datagram
                    try:
                        expected.append(("pkt", DatagramProtocol(_ser(kind)).build_packet_from_datagram(d)))
                    except DatagramProtocolParseError:
                        expected.append(("err", None))
            got = []
            for _ in plan:
                try:
                    got.append(("pkt", recv()))
                except DatagramProtocolParseError:
                    got.append(("err", None))
        except Exception as e:  # noqa: BLE001
            return Outcome(ok=False, skeleton=("escaped", type(e).__name__), tags=("exception",), detail={"escaped": repr(e)})
        ok = tr.sends == nsend and tr.recvs == len(plan) and len(tr.queue) == 0 and len(got) == len(expected)
        if ok:
            for g, e in zip(got, expected):
                if g[0] != e[0] or (g[0] == "pkt" and not (g[1] == e[1])):
                    ok = False
        tags = []
        if any(g[0] == "err" for g in got):
            tags.append("parse-error")
        if len(plan) >= 2:
            tags.append("multi-datagram")
        return Outcome(ok=ok, skeleton=[g[0] for g in got], tags=tuple(tags), detail={"got": got, "expected": expected, "sends": tr.sends, "recvs": tr.recvs, "left": list(tr.queue)})

    return scenario


CORPUS = {
    "json": (lambda: JSONSerializer(), [5, "a]", {"k": [1, {"x": None}]}, [], "é"]),
    "pickle": (lambda: PickleSerializer(), [1, "text", {"k": (1, b".")}, None]),
    "b64": (lambda: Base64EncoderSerializer(IdentitySerializer(), checksum=True), [b"", b"a", b"\r\n", b"hello"]),
    "zlib": (lambda: ZlibCompressorSerializer(IdentitySerializer()), [b"", b"a", b"hello world"]),
}


def corpus_exchange(name: str, order: list, inject: int, mode: str = "sync"):
    """corpus packets in a symbolic position of the garbage datagram: datagram sequence = packets[order] with `inject` symbolic
    garbage bytes inserted at a symbolic position; every packet must come back equal, the garbage costs exactly one outcome."""

    def scenario(S):
        make, table = CORPUS[name]
        proto = DatagramProtocol(make())
        with _endpoint(S, mode, proto) as (tr, send, recv):
            return body(S, tr, send, recv, table)

    def body(S, tr, send, recv, table):
        packets = [table[i % len(table)] for i in order]
        pos = S.int(0, len(packets), "pos")
        # the decoders are C code: garbage is picked from a table by a symbolic index (symbolic bytes would be realised)
        table_g = [b"", b"\x00", b"[", b"\x80\x04", b"{]", b"a", b"\xff\xfe", b"eJw="]
        garbage = table_g[S.choice(min(len(table_g), inject), "g")]
        try:
            for i, p in enumerate(packets):
                if i == pos:
                    tr.queue.append(garbage)
                send(p)
            if pos == len(packets):
                tr.queue.append(garbage)
            got = []
            for _ in range(len(packets) + 1):
                try:
                    got.append(("pkt", recv()))
                except DatagramProtocolParseError:
                    got.append(("err", None))
        except Exception as e:  # noqa: BLE001
            return Outcome(ok=False, skeleton=("escaped", type(e).__name__), tags=("exception",), detail={"escaped": repr(e)})
        ok = tr.sends == len(packets) and tr.recvs == len(packets) + 1 and not tr.queue
        rest = [g for i, g in enumerate(got) if i != pos]
        if ok:
            ok = len(rest) == len(packets) and all(g[0] == "pkt" and g[1] == p for g, p in zip(rest, packets))
        tags = ["multi-datagram"]
        if got[pos][0] == "err":
            tags.append("parse-error")
        return Outcome(ok=ok, skeleton=[g[0] for g in got], tags=tuple(tags), detail={"got": got, "packets": packets})

    return scenario


def asyncio_endpoint(n: int, K: int, prefix: list = ()):
    """The real asyncio DatagramEndpoint + DatagramEndpointProtocol on the deterministic loop: datagrams arrive
    (protocol.datagram_received) and pending recvfrom() tasks are cancelled in a solver-chosen order; every datagram must be
    returned by exactly one successful recvfrom(), in arrival order (a cancelled receive must not swallow a later datagram)."""
    import asyncio

    from easynetwork.lowlevel.api_async.backend._asyncio.datagram.endpoint import DatagramEndpoint as AioDatagramEndpoint
    from easynetwork.lowlevel.api_async.backend._asyncio.datagram.endpoint import DatagramEndpointProtocol

    from .asyncenv import _FakeDatagramTransport, loop_context

    def scenario(S):
        with loop_context() as loop:
            rq, eq = asyncio.Queue(), asyncio.Queue()
            proto = DatagramEndpointProtocol(loop=loop, recv_queue=rq, exception_queue=eq)
            tr = _FakeDatagramTransport()
            proto.connection_made(tr)
            ep = AioDatagramEndpoint(tr, proto, recv_queue=rq, exception_queue=eq)
            st = {"sent": 0, "got": [], "task": None, "errors": [], "cancels": 0, "cancel_pending": 0}

            async def recv_once():
                data, addr = await ep.recvfrom()
                st["got"].append(data)

            def harvest():
                t = st["task"]
                if t is not None and t.done():
                    st["task"] = None
                    if not t.cancelled() and t.exception() is not None:
                        st["errors"].append(repr(t.exception()))

            def arrive():
                if st["sent"] < n:
                    proto.datagram_received(bytes([65 + st["sent"]]), ("peer", 1))
                    st["sent"] += 1

            for i in range(K):
                harvest()
                if st["task"] is None:
                    st["task"] = loop.create_task(recv_once())
                c = prefix[i] if i < len(prefix) else S.choice(3, f"ev{i}")
                if c == 0:
                    loop.step()
                elif c == 1:
                    arrive()
                else:
                    if st["cancels"] < 2 and not st["task"].done():
                        st["cancels"] += 1
                        st["cancel_pending"] += 1
                        st["task"].cancel()
                    else:
                        loop.step()
            while st["sent"] < n:
                arrive()
            for _ in range(8 * n + 20):
                harvest()
                if st["task"] is None:
                    if len(st["got"]) >= n:
                        break
                    st["task"] = loop.create_task(recv_once())
                loop.step()
            harvest()
            if st["task"] is not None:
                st["task"].cancel()
                loop.run_until_idle(10)
            want = [bytes([65 + i]) for i in range(n)]
            ok = st["got"] == want and not st["errors"]
            tags = ("cancel-on-pending-receive",) if st["cancel_pending"] else ()
            tr.close()
            return Outcome(ok=ok, skeleton=(len(st["got"]), len(st["errors"])), tags=tags + ("multi-datagram",), detail={"received": st["got"], "expected": want, "errors": st["errors"]})

    return scenario


def shards(tier: str):
    out = []
    quick = tier == "quick"
    B = 150 if quick else 1200

    def add(name, fn, params, cost):
        out.append({"name": name, "scenario": f"props.c05:{fn}", "params": params, "budget": B, "cost": cost})

    for kind in ("lenprefixed", "sepincr", "toycomp", "rawfixed"):
        for N in (0, 1, 2, 3, 4, 5, 6) if quick else (0, 1, 2, 3, 4, 5, 6, 7, 8):
            add(f"exact/{kind}/N{N}", "exact", dict(kind=kind, N=N), cost=3**N)
    plans = [[("pkt", 2), ("raw", 3), ("pkt", 1)], [("raw", 2), ("pkt", 0), ("raw", 3)], [("pkt", 0), ("pkt", 2)], [("raw", 4), ("raw", 2), ("pkt", 3), ("raw", 1)], [("pkt", 3), ("pkt", 3), ("raw", 5)]]
    if not quick:
        plans += [[("raw", 5), ("pkt", 4), ("raw", 3), ("pkt", 0), ("raw", 2)], [("pkt", 4), ("raw", 6), ("pkt", 4)]]
    for kind in ("lenprefixed", "sepincr", "rawsep", "toycomp", "line-LF", "line-CRLF", "line-CR"):
        for i, plan in enumerate(plans):
            for mode in ("sync", "async"):
                add(f"exchange/{kind}/plan{i}/{mode}", "exchange", dict(kind=kind, plan=plan, mode=mode), cost=3 ** sum(n for _, n in plan))
            if kind in ("sepincr", "toycomp", "line-CRLF") and (i in (0, 2, 3) or not quick):  # plan 2 starts with an empty packet
                for mode in ("udpclient", "audpclient"):
                    add(f"exchange/{kind}/plan{i}/{mode}", "exchange", dict(kind=kind, plan=plan, mode=mode), cost=6 ** sum(n for _, n in plan))
    for pre in range(3):
        out.append({"name": f"asyncio-endpoint/K{6 if quick else 8}/pre{pre}", "scenario": "props.c05:asyncio_endpoint", "params": dict(n=3, K=6 if quick else 8, prefix=[pre]), "budget": B, "cost": 200, "per_path_timeout": 30})
    for name in CORPUS:
        for mode in ("sync", "async", "udpclient", "audpclient"):
            add(f"corpus/{name}/{mode}", "corpus_exchange", dict(name=name, order=[0, 1, 2, 3], inject=6 if quick else 8, mode=mode), cost=100)
    return out
