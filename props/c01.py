"""C01 - Stream round-trip: packets survive any chunking of the byte stream.

Obligations:
  sym     packets with *symbolic contents* (lengths per shard) through serializers whose leaf code is pure Python
          (harness leaves on the real AutoSeparated / FixedSize base classes, the real StringLineSerializer,
          a pure-Python compressor on the real AbstractCompressorSerializer, stapled composite, converter protocol):
          producer -> wire -> symbolic cuts -> real consumer (copying / buffer-filling) == packets, in order, once.
  corpus  serializers whose encode/decode is C code (json, struct, base64, zlib, bz2, pickle-file): packets from a
          fixed corpus, concrete wire, *symbolic cut positions*: the solver covers every chunking of each wire.
"""

from __future__ import annotations

import collections
import pickle
import struct as _struct

from easynetwork.converter import AbstractPacketConverter
from easynetwork.exceptions import PacketConversionError
from easynetwork.lowlevel._stream import StreamDataProducer
from easynetwork.protocol import BufferedStreamProtocol, StreamProtocol
from easynetwork.serializers.abc import AbstractPacketSerializer
from easynetwork.serializers.base_stream import FileBasedPacketSerializer
from easynetwork.serializers.composite import StapledPacketSerializer
from easynetwork.serializers.json import JSONSerializer
from easynetwork.serializers.line import StringLineSerializer
from easynetwork.serializers.struct import NamedTupleStructSerializer, StructSerializer
from easynetwork.serializers.wrapper.base64 import Base64EncoderSerializer
from easynetwork.serializers.wrapper.compressor import AbstractCompressorSerializer, BZ2CompressorSerializer, ZlibCompressorSerializer

from sx.engine import Outcome

from . import streamlib as L

NONTRIVIAL_RULE = "more than one packet on the wire, or a packet split across reads (a cut strictly inside a frame)"
STUBS = [
    "RawSep / RawFixed: harness leaves (identity payload) on the real AutoSeparatedPacketSerializer / FixedSizePacketSerializer",
    "ToyCompressor: pure-Python (length-prefixed) compressor/decompressor pair on the real AbstractCompressorSerializer, so that contents stay symbolic",
    "PickleFile: FileBasedPacketSerializer subclass using pickle.dump/pickle.load (the shape of the shipped CBOR/MessagePack serializers, which are not installed)",
]
ASSUMPTIONS = [
    "valid packet (documented predicate): separator-framed = non-empty payload not containing the separator; fixed-size = exactly the size; StringLine = ascii text without the newline sequence (ending with it when keep_end=True)",
    "corpus obligation: packet values are a fixed corpus (content dimension sampled), only chunking / receive path / size hint are decided by the solver",
]
BOUNDS = {
    "quick": "sym: <=2 packets, <=6 symbolic payload bytes in total, <=2 cuts; corpus: wires <= 40 bytes, 2 cuts, size hints {1,3,64}",
    "thorough": "sym: <=3 packets, <=8 bytes, 3 cuts; corpus: full corpus, 3 cuts on short wires",
}
OUTSIDE = "longer packets, >4 chunks, symbolic utf-8, user-defined serializers, cbor/msgpack (not installed), packet values beyond the corpus for C-coded serializers"


class IdentitySerializer(AbstractPacketSerializer):
    __slots__ = ()

    def serialize(self, packet):
        return packet

    def deserialize(self, data):
        return data


class _ToyComp:
    def __init__(self):
        self.parts = []

    def compress(self, data):
        self.parts.append(data)
        return b""

    def flush(self):
        data = b"".join(self.parts)
        return bytes([len(data)]) + data


class _ToyDecomp:
    def __init__(self):
        self.need = -1
        self.eof = False
        self.unused_data = b""

    def decompress(self, data):
        data = bytes(data)
        out = b""
        if self.eof:
            raise EOFError
        if self.need < 0:
            if len(data) == 0:
                return b""
            self.need = data[0]
            data = data[1:]
        take = data[: self.need]
        self.need -= len(take)
        rest = data[len(take) :]
        if self.need == 0:
            self.eof = True
            self.unused_data = rest
        return take


class ToyCompressor(AbstractCompressorSerializer):
    __slots__ = ()

    def __init__(self):
        super().__init__(IdentitySerializer(), expected_decompress_error=ValueError)

    def new_compressor_stream(self):
        return _ToyComp()

    def new_decompressor_stream(self):
        return _ToyDecomp()


class PickleFile(FileBasedPacketSerializer):
    __slots__ = ()

    def __init__(self, limit=65536):
        super().__init__(expected_load_error=(pickle.UnpicklingError, ValueError), limit=limit)

    def dump_to_file(self, packet, file):
        pickle.dump(packet, file, protocol=4)

    def load_from_file(self, file):
        # contract of FileBasedPacketSerializer.load_from_file: EOFError = missing data (pickle reports a partial
        # frame as UnpicklingError("pickle data was truncated"), which the harness maps as cbor/msgpack loaders do)
        try:
            return pickle.load(file)
        except pickle.UnpicklingError as e:
            if "truncated" in str(e):
                raise EOFError from e
            raise


class Wrapped:
    __slots__ = ("v",)

    def __init__(self, v):
        self.v = v

    def __eq__(self, other):
        return isinstance(other, Wrapped) and self.v == other.v

    def __repr__(self):
        return f"Wrapped({self.v!r})"


class WrapConverter(AbstractPacketConverter):
    __slots__ = ()

    def create_from_dto_packet(self, packet):
        if len(packet) > 0 and packet[0] == 0x3F:  # "?"
            raise PacketConversionError("refused")
        return Wrapped(packet)

    def convert_to_dto_packet(self, obj):
        return obj.v


Point = collections.namedtuple("Point", ["x", "y", "tag"])


def _protocols(ser, converter=None):
    return StreamProtocol(ser, converter), (BufferedStreamProtocol(ser, converter) if hasattr(ser, "buffered_incremental_deserialize") else None)


def _receive(ser, pieces, path, hint, converter=None):
    sp, bp = _protocols(ser, converter)
    if path == "copy":
        ev, left = L.drive_copy(sp, pieces)
        return ev, len(left)
    ev, _left, _mb = L.drive_buffered(bp, pieces, hint)
    return ev, 0


def _wire(ser, packets, converter=None):
    prod = StreamDataProducer(StreamProtocol(ser, converter))
    wire = b""
    ends = []
    for p in packets:
        for chunk in prod.generate(p):
            wire = wire + chunk
        ends.append(len(wire))
    return wire, ends


def _check(S, ser, packets, cuts, path, hint, expected=None, converter=None, window=0, recv_ser=None):
    try:
        wire, ends = _wire(ser, packets, converter)
    except Exception as e:  # noqa: BLE001
        return Outcome(ok=False, skeleton=("exc-send", type(e).__name__), tags=("exception",), detail={"exception": repr(e)})
    total = len(wire)
    cs = L.sorted_cuts(S, cuts, total)
    if window and len(cs) == 2:
        S.assume(cs[1] - cs[0] <= window)  # long wires: the middle chunk is 0..window bytes, anywhere
    pieces = L.split_at(wire, cs)
    try:
        ev, nleft = _receive(recv_ser if recv_ser is not None else ser, pieces, path, hint, converter)
    except Exception as e:  # noqa: BLE001
        return Outcome(ok=False, skeleton=("exc-recv", type(e).__name__), tags=("exception",), detail={"exception": repr(e), "wire": wire})
    want = expected if expected is not None else packets
    ok = len(ev) == len(want) and nleft == 0
    if ok:
        for (k, v), p in zip(ev, want):
            if k != "pkt" or not (v == p):
                ok = False
    tags = []
    if len(packets) > 1:
        tags.append("multi-packet")
    inside = False
    for c in cs:
        if c > 0 and c < total and c not in ends:
            inside = True
    if inside:
        tags.append("cut-inside-frame")
    return Outcome(ok=ok, skeleton=(L.skel(ev) if all(isinstance(v, (bytes, str)) or k == "err" for k, v in ev) else len(ev), nleft), tags=tuple(tags), detail={"events": ev, "sent": want, "wire": wire})


# --------------------------------------------------------------------------------------
# obligation sym


def sym(kind: str, lens: list, cuts: int, path: str, hint: int = 3, seplen: int = 2, limit: int = 16, newline: str = "CRLF", keep_end: bool = False):
    def scenario(S):
        packets = []
        expected = None
        converter = None
        if kind in ("rawsep", "stapled", "converter", "rawsep-nocheck"):
            sep = L.SEPS[seplen]
            if kind == "stapled":
                ser = StapledPacketSerializer(L.RawSep(sep, limit=limit), L.RawSep(sep, limit=limit))
            elif kind == "rawsep-nocheck":
                ser = L.RawSep(sep, limit=limit, incremental_serialize_check_separator=False)
            else:
                ser = L.RawSep(sep, limit=limit)
            for i, n in enumerate(lens):
                p = S.bytes(n, f"p{i}_")
                S.assume(p.find(sep) < 0)
                S.assume(p[0] != L.MARK)
                # validity for separator framing: the first separator in payload+separator is the appended one.  For a separator
                # with a border (a proper prefix that is also a suffix, e.g. 00 ff 00, or CRLF CRLF) a payload ending with that
                # prefix is ambiguous on the wire whatever the receiver does; the sender-side check (separator not IN the payload)
                # does not reject it - recorded as an observation in DESIGN.md section 5, not claimed as a violation.
                S.assume((p + sep).find(sep) == n)
                packets.append(p)
            if kind == "converter":
                converter = WrapConverter()
                for p in packets:
                    S.assume(p[0] != 0x3F)
                packets = [Wrapped(p) for p in packets]
        elif kind == "rawfixed":
            ser = L.RawFixed(lens[0])
            for i, n in enumerate(lens):
                assert n == lens[0]
                p = S.bytes(n, f"p{i}_")
                S.assume(p[0] != L.MARK)
                packets.append(p)
        elif kind == "line":
            ser = StringLineSerializer(newline, limit=limit, keep_end=keep_end, encoding="ascii")
            nl = ser.separator.decode()
            expected = []
            for i, n in enumerate(lens):
                p = S.ascii(n, f"p{i}_")
                S.assume(p.find(nl) < 0)
                S.assume((p + nl).find(nl) == n)
                packets.append(p)
                expected.append(p + nl if keep_end else p)
        elif kind == "toycomp":
            ser = ToyCompressor()
            for i, n in enumerate(lens):
                packets.append(S.bytes(n, f"p{i}_"))
        else:
            raise ValueError(kind)
        return _check(S, ser, packets, cuts, path, hint, expected=expected, converter=converter)

    return scenario


# --------------------------------------------------------------------------------------
# obligation corpus

JSON_PK = [5, -19.465, True, None, "", "a\\\"]}{[", [], {}, [1, [2, {"k": "}"}], "]"], {"k": {"k2": [1, 2, 3, {"x": None}]}, "s": "non-empty with é"}, 1e300, "€"]
STRUCT_PK = [(b"0123456789", -3, b"x"), (b"\x00" * 10, 2**62, b"\n"), (b"abc\r\n\x00\x00\x00\x00\x00", 0, b"\x00")]
BYTES_PK = [b"a", b"\r\n", b"hello world", b"\x00\xff" * 6, b"=" * 5]
PICKLE_PK = [1, "text", {"k": [1, 2, (3, b"\x80\x04.")]}, None, b"." * 7]


def _corpus(name: str):
    """-> (serializer, packets)"""
    if name == "json-lines":
        return JSONSerializer(use_lines=True), JSON_PK
    if name == "json-raw":
        return JSONSerializer(use_lines=False), JSON_PK
    if name == "json-raw-utf16":
        return JSONSerializer(use_lines=False, encoding="utf-8"), ["€é", {"é": "€"}, 7]
    if name == "struct":
        return StructSerializer("!10sqc"), STRUCT_PK
    if name == "namedtuple":
        return NamedTupleStructSerializer(Point, {"x": "i", "y": "h", "tag": "3s"}, encoding=None), [Point(1, -2, b"abc"), Point(-(2**31), 2**15 - 1, b"\n\r\n")]
    if name == "b64":
        return Base64EncoderSerializer(IdentitySerializer()), BYTES_PK
    if name == "b64-std-checksum":
        return Base64EncoderSerializer(IdentitySerializer(), alphabet="standard", checksum=True, separator=b"\n"), BYTES_PK
    if name == "b64-key":
        return Base64EncoderSerializer(IdentitySerializer(), checksum=b"MTIzNDU2Nzg5MDEyMzQ1Njc4OTAxMjM0NTY3ODkwMTI="), BYTES_PK[:3]
    if name == "zlib":
        return ZlibCompressorSerializer(IdentitySerializer()), BYTES_PK
    if name == "zlib-1":
        return ZlibCompressorSerializer(IdentitySerializer(), compress_level=1), BYTES_PK
    if name == "bz2":
        return BZ2CompressorSerializer(IdentitySerializer(), compress_level=1), BYTES_PK[:3]
    if name == "zlib-json":
        return ZlibCompressorSerializer(JSONSerializer()), JSON_PK[5:9]
    if name == "b64-json":
        return Base64EncoderSerializer(JSONSerializer()), JSON_PK[5:9]
    if name == "picklefile":
        return PickleFile(), PICKLE_PK
    if name == "line-utf8":
        return StringLineSerializer("LF", encoding="utf-8"), ["€", "aéb", "\U0001f600x"]
    if name == "line-cr-keepend":
        return StringLineSerializer("CR", keep_end=True), ["abc\r", "\n\r", "x\r"]
    if name == "stapled-json-line":
        return StapledPacketSerializer(JSONSerializer(), JSONSerializer()), JSON_PK[5:9]
    if name == "stapled-x-line-json":
        # endpoint X sends lines and expects JSON; its peer Y (the receiver here) expects lines
        return StapledPacketSerializer(StringLineSerializer("LF"), JSONSerializer()), ["abc", "d e", "x"]
    if name == "stapled-x-json-line":
        return StapledPacketSerializer(JSONSerializer(), StringLineSerializer("LF")), JSON_PK[5:9]
    raise ValueError(name)


def _peer(name: str):
    """the serializer of the peer that receives what `name` sends (None: same object)"""
    if name == "stapled-x-line-json":
        return StapledPacketSerializer(JSONSerializer(), StringLineSerializer("LF"))
    if name == "stapled-x-json-line":
        return StapledPacketSerializer(StringLineSerializer("LF"), JSONSerializer())
    return None


def corpus(name: str, idx: list, cuts: int, path: str, hint: int = 3, window: int = 0):
    def scenario(S):
        ser, table = _corpus(name)
        packets = [table[i % len(table)] for i in idx]
        return _check(S, ser, packets, cuts, path, hint, window=window, recv_ser=_peer(name))

    return scenario


def shards(tier: str):
    out = []
    quick = tier == "quick"
    B = 150 if quick else 1200

    def add(name, fn, params, cost):
        out.append({"name": name, "scenario": f"props.c01:{fn}", "params": params, "budget": B, "cost": cost})

    # ---- sym ---------------------------------------------------------------------------
    lens_sets = [[2, 1], [1, 3]] if quick else [[2, 1], [1, 3], [3, 3], [1, 1, 2], [4, 2]]
    for lens in lens_sets:
        tot = sum(lens)
        nm = "+".join(map(str, lens))
        for path in ("copy", "buf"):
            for seplen in (1, 2) if quick else (1, 2, 3):
                add(f"sym/rawsep/S{seplen}/{nm}/{path}", "sym", dict(kind="rawsep", lens=lens, cuts=2, path=path, seplen=seplen, limit=tot + 8), cost=3 ** (tot + seplen * len(lens)))
            for newline in ("LF", "CRLF") if quick else ("LF", "CR", "CRLF"):
                for keep_end in (False, True):
                    if keep_end:
                        continue  # keep_end=True packets end with the newline: handled in the corpus (line-cr-keepend) and below
                    add(f"sym/line/{newline}/{nm}/{path}", "sym", dict(kind="line", lens=lens, cuts=2, path=path, newline=newline, limit=tot + 8), cost=3 ** (tot + 2 * len(lens)))
            add(f"sym/toycomp/{nm}/{path}/h2", "sym", dict(kind="toycomp", lens=lens, cuts=2, path=path, hint=2), cost=3 ** (tot + len(lens)))
            if not quick:
                add(f"sym/toycomp/{nm}/{path}/h64", "sym", dict(kind="toycomp", lens=lens, cuts=3, path=path, hint=64), cost=3 ** (tot + len(lens)))
        add(f"sym/stapled/{nm}/buf", "sym", dict(kind="stapled", lens=lens, cuts=2, path="buf", seplen=2, limit=tot + 8), cost=3 ** (tot + 4))
        add(f"sym/converter/{nm}/copy", "sym", dict(kind="converter", lens=lens, cuts=2, path="copy", seplen=1, limit=tot + 8), cost=3 ** (tot + 2))
        add(f"sym/converter/{nm}/buf", "sym", dict(kind="converter", lens=lens, cuts=2, path="buf", seplen=1, limit=tot + 8), cost=3 ** (tot + 2))
        add(f"sym/rawsep-nocheck/{nm}/copy", "sym", dict(kind="rawsep-nocheck", lens=lens, cuts=2, path="copy", seplen=2, limit=tot + 8), cost=3 ** (tot + 4))
    for lens in ([2, 2], [3, 3]) if quick else ([2, 2], [3, 3], [2, 2, 2], [4, 4]):
        nm = "+".join(map(str, lens))
        for path in ("copy", "buf"):
            for hint in (1, 3) if quick else (1, 3, 5, 64):
                add(f"sym/rawfixed/{nm}/{path}/h{hint}", "sym", dict(kind="rawfixed", lens=lens, cuts=2 if quick else 3, path=path, hint=hint), cost=3 ** sum(lens))
    # ---- corpus ------------------------------------------------------------------------
    names = ["json-lines", "json-raw", "struct", "namedtuple", "b64", "b64-std-checksum", "zlib", "bz2", "picklefile", "line-utf8", "line-cr-keepend", "zlib-json", "b64-json", "stapled-json-line", "json-raw-utf16", "b64-key", "zlib-1", "stapled-x-line-json", "stapled-x-json-line"]
    for name in names:
        ser, table = _corpus(name)
        buffered = hasattr(_peer(name) or ser, "buffered_incremental_deserialize")
        groups = [[i, i + 1] for i in range(0, len(table), 2)]
        if quick:
            groups = groups[:2] if name not in ("json-lines", "json-raw") else groups[:4]
        for g in groups:
            wlen = len(_wire(ser, [table[i % len(table)] for i in g])[0])
            window = 0 if wlen <= (36 if quick else 60) else 2
            for path in ("copy", "buf") if buffered else ("copy",):
                for hint in ((3,) if path == "copy" else ((1, 64) if quick else (1, 3, 7, 64))):
                    add(f"corpus/{name}/{'-'.join(map(str, g))}/{path}/h{hint}", "corpus", dict(name=name, idx=g, cuts=2, path=path, hint=hint, window=window), cost=wlen * wlen if not window else wlen * 3)
    return out
