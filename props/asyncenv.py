"""Deterministic asyncio environment for the asynchronous properties.

* DetLoop: asyncio.BaseEventLoop subclass with a virtual clock and a selector stub; tasks, futures, call_soon, call_at,
  task groups and cancellation are the real CPython implementation.  The harness steps it (`step()` = one `_run_once()`),
  so "same loop iteration" vs "next iteration" orderings are explicit choices.
* FakeAsyncioTransport: the asyncio.Transport under AsyncioTransportStreamSocketAdapter.  Contract implemented:
  write()/writelines() try to hand bytes to the "kernel" at once (amount decided by the scenario), the rest sits in a
  user-space buffer; when the buffer size exceeds the high-water mark pause_writing() is called synchronously, when it
  falls to the low-water mark resume_writing(); close() schedules connection_lost(None) with call_soon once the buffer is
  empty, abort()/lose(exc) at once; get_buffer()/buffer_updated() are called by the harness ("kernel has k bytes") unless
  reading is paused.
* MemStreamTransport / MemListener: in-memory AsyncStreamTransport / AsyncListener (each operation may suspend a scripted
  number of loop iterations, complete with 1..n bytes or fail with a scripted error; aclose() marks closed even if it raises).
"""

from __future__ import annotations

import asyncio
import collections

from easynetwork.lowlevel.api_async.backend._asyncio.backend import AsyncIOBackend


class _FakeSelector:
    def __init__(self, loop):
        self.loop = loop

    def select(self, timeout):
        if timeout is None:
            return []
        if timeout > 0:
            self.loop._vtime += timeout
        elif self.loop.busy_tick and self.loop._scheduled:
            # callbacks are ready (timeout == 0) while timers are pending: a real loop iteration takes some time, so a
            # chain of call_soon callbacks cannot freeze the clock forever
            self.loop._vtime += self.loop.busy_tick
        return []

    def close(self):
        pass


class DetLoop(asyncio.BaseEventLoop):
    def __init__(self):
        super().__init__()
        self._vtime = 0.0
        self.busy_tick = 0.0
        self._selector = _FakeSelector(self)
        self.exceptions = []
        self.set_exception_handler(lambda loop, ctx: self.exceptions.append(ctx))

    def time(self):
        return self._vtime

    def _process_events(self, events):
        pass

    def _write_to_self(self):
        pass

    def step(self):
        """one event-loop iteration (does not block: with nothing ready it returns at once, timers jump the virtual clock)"""
        self._run_once()

    def idle(self) -> bool:
        return not self._ready and not self._scheduled

    def run_until_idle(self, max_steps: int = 200) -> bool:
        for _ in range(max_steps):
            if not self._ready and not self._scheduled:
                return True
            self._run_once()
        return False

    def advance(self, dt: float):
        """let virtual time pass without running anything"""
        self._vtime += dt


class loop_context:
    """`with loop_context() as loop:` installs a fresh DetLoop as the running loop of this thread."""

    def __enter__(self):
        self.loop = DetLoop()
        self._prev = asyncio._get_running_loop()
        asyncio._set_running_loop(self.loop)
        return self.loop

    def __exit__(self, *a):
        loop = self.loop
        try:
            # cancel whatever is left so that no coroutine is destroyed pending
            for t in list(asyncio.all_tasks(loop)):
                t.cancel()
            loop.run_until_idle(50)
        except BaseException:  # noqa: BLE001
            pass
        asyncio._set_running_loop(self._prev)
        try:
            loop.close()
        except BaseException:  # noqa: BLE001
            pass
        return False


def backend() -> AsyncIOBackend:
    return AsyncIOBackend()


class _FakeTransportSocket:
    family = 2
    type = 1
    proto = 0

    def fileno(self):
        return 99

    def getsockname(self):
        return ("127.0.0.1", 1)

    def getpeername(self):
        return ("127.0.0.1", 2)

    def getsockopt(self, *a):
        return 0

    def setsockopt(self, *a):
        pass


class FakeAsyncioTransport(asyncio.Transport):
    def __init__(self, loop, protocol):
        super().__init__()
        self.loop = loop
        self.protocol = protocol
        self.buffer = bytearray()  # user-space write buffer (what asyncio would keep in memory)
        self.wire = []  # bytes handed to the "kernel", in order
        self.high = 64 * 1024
        self.low = 16 * 1024
        self.write_paused = False
        self.reading_paused = False
        self.closing = False
        self.force_closed = False
        self.conn_lost = False
        self.eof_written = False
        self.accept_now = lambda n: n  # how many of n bytes the kernel takes immediately (scenario overrides)
        self.max_buffered = 0
        self._sock = _FakeTransportSocket()

    # -- info ----------------------------------------------------------------------------------
    def get_extra_info(self, name, default=None):
        if name == "socket":
            return self._sock
        if name == "peername":
            return ("127.0.0.1", 2)
        if name == "sockname":
            return ("127.0.0.1", 1)
        return default

    def is_closing(self):
        return self.closing

    # -- read side -----------------------------------------------------------------------------
    def pause_reading(self):
        self.reading_paused = True

    def resume_reading(self):
        self.reading_paused = False

    def is_reading(self):
        return not self.reading_paused and not self.closing

    # -- write side ----------------------------------------------------------------------------
    def set_write_buffer_limits(self, high=None, low=None):
        if high is None:
            high = 64 * 1024 if low is None else 4 * low
        if low is None:
            low = high // 4
        self.high, self.low = high, low
        self._maybe_pause()

    def get_write_buffer_size(self):
        return len(self.buffer)

    def get_write_buffer_limits(self):
        return (self.low, self.high)

    def _maybe_pause(self):
        if len(self.buffer) > self.high and not self.write_paused:
            self.write_paused = True
            self.protocol.pause_writing()

    def _maybe_resume(self):
        if self.write_paused and len(self.buffer) <= self.low:
            self.write_paused = False
            self.protocol.resume_writing()

    def write(self, data):
        if self.eof_written:
            raise RuntimeError("Cannot call write() after write_eof()")
        data = bytes(data)
        if self.conn_lost or self.force_closed or not data:
            return  # asyncio drops (and warns about) writes after a fatal error
        if not self.buffer:
            n = self.accept_now(len(data))
            if n:
                self.wire.append(data[:n])
                data = data[n:]
        if data:
            self.buffer += data
            if len(self.buffer) > self.max_buffered:
                self.max_buffered = len(self.buffer)
            self._maybe_pause()

    def writelines(self, list_of_data):
        self.write(b"".join(bytes(d) for d in list_of_data))

    def flush(self, n):
        """the kernel takes n more bytes from the user-space buffer (socket became writable)"""
        if self.conn_lost or self.force_closed:
            return  # after a fatal error asyncio removes the writer: no more write-ready callbacks
        n = min(n, len(self.buffer))
        if n:
            self.wire.append(bytes(self.buffer[:n]))
            del self.buffer[:n]
        self._maybe_resume()
        if self.closing and not self.buffer:
            self._soon(self._call_connection_lost, None)

    def can_write_eof(self):
        return True

    def write_eof(self):
        self.eof_written = True

    def close(self):
        if self.closing:
            return
        self.closing = True
        if not self.buffer:
            self._soon(self._call_connection_lost, None)

    def abort(self):
        self.lose(None)

    def lose(self, exc):
        """fatal error / abort: connection_lost is delivered on the next loop iteration, buffered bytes are dropped"""
        if self.conn_lost or self.force_closed:
            return
        self.closing = True
        self.force_closed = True
        self.buffer.clear()
        self._soon(self._call_connection_lost, exc)

    def _soon(self, fn, *a):
        if not self.loop.is_closed():
            self.loop.call_soon(fn, *a)

    def _call_connection_lost(self, exc):
        if self.conn_lost:
            return
        self.conn_lost = True
        self.protocol.connection_lost(exc)

    def sent(self) -> bytes:
        return b"".join(self.wire)


# --------------------------------------------------------------------------------------------------
# in-memory AsyncStreamTransport

from easynetwork.lowlevel.api_async.transports.abc import AsyncStreamTransport  # noqa: E402


class MemStreamTransport(AsyncStreamTransport):
    """In-memory stream transport.  Read side: `incoming` bytes become available when the harness calls feed(k);
    recv/recv_into return 1..min(room, available) bytes (amount decided by `decide`), b""/0 once EOF was fed and everything
    was consumed, and otherwise suspend on a future until the harness feeds more (only possible on a running loop).
    Write side: send_all suspends `send_suspensions()` loop iterations, then records the data; may raise a scripted error.
    aclose() marks the transport closed even if it is scripted to raise or to suspend."""

    def __init__(self, be, incoming=b"", *, available=None, eof=False, decide=None, loop=None, eof_once=False):
        self._be = be
        self.incoming = incoming
        self.rpos = 0
        self.available = len(incoming) if available is None else available
        self.eof = eof
        self.decide = decide or (lambda m: m)
        self.loop = loop
        self.waiter = None
        self.sent = []
        self.closed = False
        self.close_calls = 0
        self.send_suspensions = lambda: 0
        self.send_error = None
        self.close_error = None
        self.close_suspensions = 0
        self.recv_calls = 0
        self.eof_sent = False
        self.eof_once = eof_once
        self.eof_returned = False

    # -- harness side ------------------------------------------------------------------------------
    def feed(self, k):
        self.available = min(len(self.incoming), self.available + k)
        self._wake()

    def feed_eof(self):
        self.eof = True
        self._wake()

    def _wake(self):
        w, self.waiter = self.waiter, None
        if w is not None and not w.done():
            w.set_result(None)

    # -- transport API -----------------------------------------------------------------------------
    async def _wait_readable(self):
        while self.rpos >= self.available and not (self.eof and not (self.eof_once and self.eof_returned)):
            if self.closed:
                raise OSError(9, "closed")
            if self.loop is None:
                raise RuntimeError("MemStreamTransport: would block but no loop is running (scenario bug)")
            self.waiter = self.loop.create_future()
            try:
                await self.waiter
            finally:
                self.waiter = None

    def _take(self, room):
        left = self.available - self.rpos
        if left <= 0:
            self.eof_returned = True
            return b""
        m = left if left < room else room
        n = self.decide(m)
        out = self.incoming[self.rpos : self.rpos + n]
        self.rpos += n
        return out

    async def recv(self, bufsize):
        self.recv_calls += 1
        await self._wait_readable()
        return self._take(bufsize)

    async def recv_into(self, buffer):
        self.recv_calls += 1
        await self._wait_readable()
        with memoryview(buffer) as view:
            data = self._take(len(view))
            n = len(data)
            view[:n] = data
            return n

    async def send_all(self, data):
        data = bytes(data)
        for _ in range(self.send_suspensions()):
            await self._be.coro_yield()
        if self.send_error is not None:
            raise self.send_error
        if self.closed:
            raise OSError(9, "closed")
        self.sent.append(data)

    async def send_all_from_iterable(self, iterable_of_data):
        # chunk by chunk, with a possible suspension before each one (a real transport may suspend between partial writes)
        for chunk in list(iterable_of_data):
            await self.send_all(chunk)

    async def send_eof(self):
        self.eof_sent = True

    async def aclose(self):
        self.close_calls += 1
        self.closed = True
        self._wake()
        for _ in range(self.close_suspensions):
            await self._be.coro_yield()
        if self.close_error is not None:
            raise self.close_error

    def is_closing(self):
        return self.closed

    def backend(self):
        return self._be

    @property
    def extra_attributes(self):
        from easynetwork.lowlevel.socket import INETSocketAttribute

        sock = _FakeTransportSocket()
        return {
            INETSocketAttribute.socket: lambda: sock,
            INETSocketAttribute.family: lambda: 2,
            INETSocketAttribute.sockname: lambda: ("127.0.0.1", 1),
            INETSocketAttribute.peername: lambda: ("127.0.0.1", 2),
        }


def run_coro(coro):
    """drive a coroutine that must not suspend (in-memory transport with everything available)"""
    try:
        coro.send(None)
    except StopIteration as e:
        return e.value
    coro.close()
    raise RuntimeError("coroutine suspended although nothing can block")


# --------------------------------------------------------------------------------------------------
# in-memory listener

import contextlib  # noqa: E402

from easynetwork.lowlevel.api_async.transports.abc import AsyncListener  # noqa: E402


class MemListener(AsyncListener):
    """Hands the scripted client transports to the server's handler (one task each in the given task group), then sleeps.
    More clients can be injected later with connect()."""

    def __init__(self, be, transports=()):
        self._be = be
        self.pending = list(transports)
        self.closed = False
        self._tg = None
        self._handler = None

    async def serve(self, handler, task_group=None):
        async with contextlib.AsyncExitStack() as stack:
            if task_group is None:
                task_group = await stack.enter_async_context(self._be.create_task_group())
            self._tg, self._handler = task_group, handler
            while self.pending:
                task_group.start_soon(handler, self.pending.pop(0))
            await self._be.sleep_forever()

    def connect(self, transport):
        if self._tg is None:
            self.pending.append(transport)
        else:
            self._tg.start_soon(self._handler, transport)

    async def aclose(self):
        self.closed = True

    def is_closing(self):
        return self.closed

    def backend(self):
        return self._be

    @property
    def extra_attributes(self):
        return {}


# --------------------------------------------------------------------------------------------------
# in-memory datagram listener built on the REAL DatagramListenerProtocol

from easynetwork.lowlevel.api_async.backend._asyncio.datagram.listener import DatagramListenerProtocol  # noqa: E402
from easynetwork.lowlevel.api_async.transports.abc import AsyncDatagramListener  # noqa: E402


class _FakeDatagramTransport(asyncio.DatagramTransport):
    def __init__(self):
        super().__init__()
        self.sent = []
        self.closing = False

    def is_closing(self):
        return self.closing

    def sendto(self, data, addr=None):
        self.sent.append((bytes(data), addr))

    def close(self):
        self.closing = True

    def get_extra_info(self, name, default=None):
        return default


class MemDatagramListener(AsyncDatagramListener):
    """serve() is the real DatagramListenerProtocol.serve (one task per datagram, in reception order); the scenario
    injects datagrams with inject(data, addr) = protocol.datagram_received(data, addr)."""

    def __init__(self, be, loop):
        self._be = be
        self.transport = _FakeDatagramTransport()
        self.protocol = DatagramListenerProtocol(loop=loop)
        self.protocol.connection_made(self.transport)
        self.closed = False

    def inject(self, data, addr):
        self.protocol.datagram_received(data, addr)

    async def serve(self, handler, task_group=None):
        async with contextlib.AsyncExitStack() as stack:
            if task_group is None:
                task_group = await stack.enter_async_context(self._be.create_task_group())
            await self.protocol.serve(handler, task_group)

    async def send_to(self, data, address):
        self.transport.sendto(data, address)
        await self.protocol.writer_drain()

    async def aclose(self):
        self.closed = True

    def is_closing(self):
        return self.closed

    def backend(self):
        return self._be

    @property
    def extra_attributes(self):
        return {}


# --------------------------------------------------------------------------------------------------
# backend whose listeners/connections are in memory (for the high-level servers and clients)


class MemServerBackend(AsyncIOBackend):
    """AsyncIOBackend with create_tcp_listeners()/create_tcp_connection() answered from memory.
    Listener creation suspends `listener_delay` loop iterations (so lifecycle calls can land inside that window)."""

    def __init__(self, listener_delay: int = 1, n_listeners: int = 1):
        super().__init__()
        self.listener_delay = listener_delay
        self.n_listeners = n_listeners
        self.listeners = []
        self.listener_error = None

    async def create_tcp_listeners(self, host, port, backlog=100, *, reuse_port=False):
        for _ in range(self.listener_delay):
            await self.coro_yield()
        if self.listener_error is not None:
            raise self.listener_error
        made = [MemListener(self) for _ in range(self.n_listeners)]
        self.listeners.extend(made)
        return made

    async def create_udp_listeners(self, host, port, *, reuse_port=False):
        import asyncio as _asyncio

        for _ in range(self.listener_delay):
            await self.coro_yield()
        made = [MemDatagramListener(self, _asyncio.get_running_loop()) for _ in range(self.n_listeners)]
        self.listeners.extend(made)
        return made


def _listener_extra(self):
    from easynetwork.lowlevel.socket import INETSocketAttribute

    sock = _FakeTransportSocket()
    return {
        INETSocketAttribute.socket: lambda: sock,
        INETSocketAttribute.family: lambda: 2,
        INETSocketAttribute.sockname: lambda: ("127.0.0.1", 1),
    }


MemListener.extra_attributes = property(_listener_extra)


MemDatagramListener.extra_attributes = property(_listener_extra)


# --------------------------------------------------------------------------------------------------
# in-memory duplex pipe (two connected AsyncStreamTransports), used to run REAL ssl objects against each other


class PipeTransport(AsyncStreamTransport):
    def __init__(self, be, loop):
        self._be = be
        self.loop = loop
        self.buf = bytearray()
        self.peer = None
        self.eof = False
        self.closed = False
        self.waiter = None
        self.close_calls = 0

    @classmethod
    def pair(cls, be, loop):
        a, b = cls(be, loop), cls(be, loop)
        a.peer, b.peer = b, a
        return a, b

    def _wake(self):
        w, self.waiter = self.waiter, None
        if w is not None and not w.done():
            w.set_result(None)

    async def _wait(self):
        while not self.buf and not self.eof:
            if self.closed:
                raise OSError(9, "closed")
            self.waiter = self.loop.create_future()
            try:
                await self.waiter
            finally:
                self.waiter = None

    async def recv(self, bufsize):
        await self._wait()
        out = bytes(self.buf[:bufsize])
        del self.buf[:bufsize]
        return out

    async def recv_into(self, buffer):
        await self._wait()
        with memoryview(buffer) as view:
            n = min(len(view), len(self.buf))
            view[:n] = self.buf[:n]
            del self.buf[:n]
            return n

    async def send_all(self, data):
        data = bytes(data)
        await self._be.coro_yield()
        if self.closed:
            raise OSError(32, "broken pipe")
        self.peer.buf += data
        self.peer._wake()

    async def send_eof(self):
        self.peer.eof = True
        self.peer._wake()

    async def aclose(self):
        self.close_calls += 1
        if not self.closed:
            self.closed = True
            self.peer.eof = True
            self.peer._wake()
            self._wake()

    def is_closing(self):
        return self.closed

    def backend(self):
        return self._be

    @property
    def extra_attributes(self):
        return {}
