"""C03 - Receive endpoints: every complete packet once, then a sticky end-of-stream.

The peer sends m frames (symbolic payloads) followed by an incomplete frame, and closes after a symbolic number e of bytes
(so the close can fall anywhere: inside a frame, between frames, inside the separator).  The application calls recv_packet
H times.  Real code: StreamEndpoint (over FakeSocket + SocketStreamTransport, kernel read sizes symbolic), AsyncStreamEndpoint
(over an in-memory async transport, coroutines stepped directly), TCPNetworkClient (recv_packet and iter_received_packets),\nAsyncTCPNetworkClient.recv_packet (connect on first use, on the deterministic loop).
Asserted: the packets returned are exactly the frames fully contained in the first e bytes, in order, each once; when the first
end-of-stream (ConnectionAbortedError) is reported all of them have been delivered; every later call reports end-of-stream
again (never data, never another error, never a hang); the incomplete tail is never delivered.
"""

from __future__ import annotations

import easynetwork.clients.tcp as tcp_mod
from easynetwork.clients.tcp import TCPNetworkClient
from easynetwork.lowlevel.api_async.endpoints.stream import AsyncStreamEndpoint
from easynetwork.lowlevel.api_sync.endpoints.stream import StreamEndpoint
from easynetwork.lowlevel.api_sync.transports.socket import SocketStreamTransport
from easynetwork.protocol import BufferedStreamProtocol, StreamProtocol

from sx.engine import Outcome

from . import streamlib as L
from .asyncenv import MemStreamTransport, backend, run_coro
from .syncenv import INF, Env, FakeSocket, Fuel, StubSelector, patched_clock

NONTRIVIAL_RULE = "the peer closed inside a frame or separator, or at least two packets were delivered before end-of-stream"
STUBS = ["FakeSocket/StubSelector (sync), MemStreamTransport (async): recv returns 1..min(room, available) bytes, then 0 bytes at EOF exactly once; a further read would block forever (the strictest transport allowed by the StreamReadTransport contract, so re-reading after end-of-stream shows up as a hang)"]
ASSUMPTIONS = ["frames are valid and safely within the limit (malformed frames are C02's subject)", "recv_packet is called with timeout=None except in the timed-eof shards (finite timeouts T in {0, 1, 2} ticks around the peer's close; timeout accounting itself is C11's subject)"]
BOUNDS = {"quick": "<= 2 frames of <= 2 bytes + a 1-2 byte tail, separator LF/CRLF, close position anywhere, H = frames + 3 calls, max_recv_size in {1, 2, 16}; timed-eof: 1 frame + 2-byte tail, timeouts T in {0, 1, 2} ticks, <= 2 would-blocks, 7 calls", "thorough": "3 frames, longer payloads"}
OUTSIDE = "real sockets, TLS transports, AsyncTCPNetworkClient wiring (its endpoint is the one driven here)"


class NoneSep(L.RawSep):
    """a payload of b"N" deserializes to the packet value None (like JSON null): a valid packet that is falsy/None"""

    __slots__ = ()

    def deserialize(self, data):
        if len(data) == 1 and data[0] == 0x4E:
            return None
        return super().deserialize(data)


def endpoint(lens: list, tail: int, seplen: int, path: str, mode: str, bufsize: int = 2, none_packets: bool = False, so_error: bool = False):
    """mode: sync | async | client | client-iter | aclient"""

    def scenario(S):
        sep = L.SEPS[seplen]
        frames = []
        stream = b""
        ends = []
        for i, n in enumerate(lens):
            p = S.bytes_in(n, (0x4E, 0x41 + i), f"f{i}_") if (none_packets and n == 1) else S.bytes(n, f"f{i}_")
            S.assume(p.find(sep) < 0)
            S.assume((p + sep).find(sep) == n)
            if n:
                S.assume(p[0] != L.MARK)
            frames.append(p)
            stream = stream + p + sep
            ends.append(len(stream))
        t = S.bytes(tail, "t")
        S.assume(t.find(sep) < 0)
        stream = stream + t
        N = len(stream)
        e = S.int(0, N, "close_at")
        # what the peer actually sent before closing
        sent = stream[:e]
        complete = 0
        for end in ends:
            if end <= e:
                complete += 1
        ser = (NoneSep if none_packets else L.RawSep)(sep, limit=max(lens + [tail, 1]) + 2 * seplen + 2)
        expected_values = [None if (none_packets and len(p) == 1 and p[0] == 0x4E) else p for p in frames]
        proto = BufferedStreamProtocol(ser) if path == "buf" else StreamProtocol(ser)
        H = len(lens) + 3
        outcomes = []
        sock = None
        saved = tcp_mod.SocketStreamTransport
        try:
            loop_cm = None
            if mode == "aclient":
                # the real AsyncTCPNetworkClient (connects on first use) on the deterministic loop
                from easynetwork.clients.async_tcp import AsyncTCPNetworkClient

                from .asyncenv import loop_context
                from .c12 import MemBackend

                loop_cm = loop_context()
                loop = loop_cm.__enter__()

                def decide(m):
                    a = S.int(1, max(N, 1), "rd")
                    S.assume(a <= m)
                    return a

                holder = {}

                def factory():
                    holder["tr"] = MemStreamTransport(be, sent, eof=True, decide=decide, eof_once=True, loop=loop)
                    return holder["tr"]

                be = MemBackend(factory)
                aclient = AsyncTCPNetworkClient(("host", 1), proto, be, max_recv_size=bufsize)

                def call():
                    t = loop.create_task(aclient.recv_packet())
                    for _ in range(30):
                        loop.step()
                        if t.done():
                            break
                    if not t.done():
                        t.cancel()
                        loop.run_until_idle(10)
                        raise RuntimeError("would block: recv_packet() did not finish")
                    return t.result()

            elif mode == "async":
                def decide(m):
                    a = S.int(1, max(N, 1), "rd")
                    S.assume(a <= m)
                    return a

                tr = MemStreamTransport(backend(), sent, eof=True, decide=decide, eof_once=True)
                ep = AsyncStreamEndpoint(tr, proto, max_recv_size=bufsize)
                call = lambda: run_coro(ep.recv_packet())  # noqa: E731
            else:
                env = Env(S, fuel=6 * (N + H) + 20, max_eagain=1, cap=max(N, 1), symbolic_time=False)
                sock = FakeSocket(env, incoming=sent, eof_after=True, eof_once=True)
                if so_error:
                    # the peer closed abortively: the kernel holds a pending socket error (read and reset by getsockopt(SO_ERROR))
                    sock.pending_so_error = 104
                if mode == "sync":
                    trs = SocketStreamTransport(sock, INF, selector_factory=lambda: StubSelector(env))
                    ep = StreamEndpoint(trs, proto, max_recv_size=bufsize)
                    call = lambda: ep.recv_packet()  # noqa: E731
                else:
                    tcp_mod.SocketStreamTransport = lambda s, retry_interval: saved(s, retry_interval, selector_factory=lambda: StubSelector(env))
                    client = TCPNetworkClient(sock, proto, retry_interval=INF, max_recv_size=bufsize)
                    call = lambda: client.recv_packet()  # noqa: E731
            if mode == "client-iter":
                # iter_received_packets stops at end-of-stream; afterwards recv_packet must report it
                try:
                    for pkt in client.iter_received_packets(timeout=None):
                        outcomes.append(("pkt", pkt))
                        if len(outcomes) > H:
                            break
                    outcomes.append(("eof", None))
                except Fuel:
                    outcomes.append(("hang", None))
                except Exception as ex:  # noqa: BLE001
                    outcomes.append(("raised:" + type(ex).__name__, None))
            n_calls = H if mode != "client-iter" else 2
            for _ in range(n_calls):
                try:
                    outcomes.append(("pkt", call()))
                except ConnectionAbortedError:
                    outcomes.append(("eof", None))
                except Fuel:
                    outcomes.append(("hang", None))
                    break
                except Exception as ex:  # noqa: BLE001
                    if "would block" in str(ex):
                        outcomes.append(("hang", None))  # the transport was read again after it had reported end-of-stream
                        break
                    outcomes.append(("raised:" + type(ex).__name__, None))
        finally:
            tcp_mod.SocketStreamTransport = saved
            if sock is not None:
                sock.really_close()
            if loop_cm is not None:
                loop_cm.__exit__(None, None, None)
        ok = True
        seen_eof = False
        npk = 0
        for kind, val in outcomes:
            if kind == "pkt":
                want = expected_values[npk] if npk < len(expected_values) else None
                if seen_eof or npk >= complete or not (val is None if want is None else val == want):
                    ok = False
                npk += 1
            elif kind == "eof":
                if not seen_eof and npk != complete:
                    ok = False  # end-of-stream reported before all complete packets were delivered
                seen_eof = True
            else:
                ok = False
        if not seen_eof:
            ok = False  # H calls are enough to reach end-of-stream
        tags = []
        if e not in ends and e != 0 and e != N:
            tags.append("close-inside-frame")
        if npk >= 2:
            tags.append("multi-packet")
        return Outcome(ok=ok, skeleton=[k for k, _ in outcomes], tags=tuple(tags), detail={"outcomes": outcomes, "frames": frames, "close_at": e, "stream_len": N, "complete_frames": complete})

    return scenario


def timed_eof(kind: str, path: str, T: int, rsize: int = 2):
    """Receives with a FINITE timeout around the peer's close: the stream 'A\\n' + an unterminated tail 'xy' is handed out in pieces
    of <= rsize bytes with solver-chosen would-block results, the selector lets a solver-chosen time (0..T) pass, then the socket
    reports end-of-stream exactly once and blocks afterwards.  Up to 7 recv_packet(timeout=T) calls.  Asserted: 'A' is delivered
    once, before end-of-stream; calls may time out before end-of-stream was reported, but once it was reported every later call
    reports it again (no TimeoutError, no data, no hang); the tail never surfaces; end-of-stream is reached."""
    from .syncenv import patched_clock

    def scenario(S):
        stream = b"A\nxy"
        env = Env(S, fuel=120, max_eagain=2, cap=rsize, elapsed_max=max(T, 1))
        sock = FakeSocket(env, incoming=stream, eof_after=True, eof_once=True)
        ser = L.RawSep(b"\n", limit=8)
        proto = BufferedStreamProtocol(ser) if path == "buf" else StreamProtocol(ser)
        saved = tcp_mod.SocketStreamTransport
        outcomes = []
        try:
            if kind == "client":
                tcp_mod.SocketStreamTransport = lambda s, retry_interval: saved(s, retry_interval, selector_factory=lambda: StubSelector(env))
                obj = TCPNetworkClient(sock, proto, retry_interval=INF, max_recv_size=rsize)
            else:
                trs = SocketStreamTransport(sock, INF, selector_factory=lambda: StubSelector(env))
                obj = StreamEndpoint(trs, proto, max_recv_size=rsize)
            with patched_clock(env):
                for _ in range(7):
                    try:
                        outcomes.append(("pkt", obj.recv_packet(timeout=T)))
                    except ConnectionAbortedError:
                        outcomes.append(("eof", None))
                    except TimeoutError:
                        outcomes.append(("timeout", None))
                    except Fuel:
                        outcomes.append(("hang", None))
                        break
                    except Exception as ex:  # noqa: BLE001
                        outcomes.append(("raised:" + type(ex).__name__, None))
        finally:
            tcp_mod.SocketStreamTransport = saved
            sock.really_close()
        ok = True
        seen_eof = False
        npk = 0
        for k, val in outcomes:
            if k == "pkt":
                if seen_eof or npk >= 1 or not (val == b"A"):
                    ok = False
                npk += 1
            elif k == "eof":
                if not seen_eof and npk != 1:
                    ok = False
                seen_eof = True
            elif k == "timeout":
                if seen_eof:
                    ok = False  # end-of-stream was reported, then a later call blocked until its timeout instead of reporting it again
            else:
                ok = False
        if not seen_eof:
            ok = False
        tags = []
        if any(k == "timeout" for k, _ in outcomes):
            tags.append("timed-out-before-eof")
        return Outcome(ok=ok, skeleton=[k for k, _ in outcomes], tags=tuple(tags), detail={"outcomes": outcomes, "T": T, "selects": env.selects})

    return scenario


def shards(tier: str):
    out = []
    quick = tier == "quick"
    B = 200 if quick else 1500

    def add(name, params, cost):
        out.append({"name": name, "scenario": "props.c03:endpoint", "params": params, "budget": B, "cost": cost, "per_path_timeout": 30})

    plans = [([1], 1), ([1, 1], 1), ([2, 0], 2)] if quick else [([1], 1), ([1, 1], 1), ([2, 0], 2), ([1, 2, 1], 1), ([3, 2], 2)]
    for lens, tail in plans:
        nm = "+".join(map(str, lens)) + f"t{tail}"
        for seplen in (1, 2):
            for path in ("copy", "buf"):
                for mode in ("sync", "async", "client", "client-iter", "aclient"):
                    for bufsize in (1, 2, 16) if not quick else ((1, 16) if mode in ("sync", "async") else (2,)):
                        if quick and mode.startswith("client") and (seplen == 2 and path == "buf"):
                            continue
                        add(f"ep/{mode}/{path}/S{seplen}/{nm}/b{bufsize}", dict(lens=lens, tail=tail, seplen=seplen, path=path, mode=mode, bufsize=bufsize), cost=4 ** (sum(lens) + tail + seplen * len(lens)))
    # packets whose value is None (falsy) must be delivered like any other; a pending socket error must not eat packets
    for path in ("copy", "buf"):
        for mode in ("sync", "async", "client"):
            add(f"none/{mode}/{path}/1+1t0", dict(lens=[1, 1], tail=0, seplen=1, path=path, mode=mode, bufsize=16, none_packets=True), cost=500)
        for kind in ("endpoint", "client"):
            for T in (0, 1, 2):
                out.append({"name": f"timed-eof/{kind}/{path}/T{T}", "scenario": "props.c03:timed_eof", "params": dict(kind=kind, path=path, T=T, rsize=2 if quick else 1), "budget": B, "cost": 600, "per_path_timeout": 30})
        add(f"soerror/client/{path}/1+1t1", dict(lens=[1, 1], tail=1, seplen=1, path=path, mode="client", bufsize=16, so_error=True), cost=300)
    return out
