"""C19 - Connection racing returns one socket and leaks none.

Real code: BaseAsyncDNSResolver._staggered_race_connection_impl, _create_connection_impl, _interleave_addrinfos,
_prioritize_ipv6_over_ipv4 on the deterministic loop with real task groups and cancel scopes.  connect_socket() is a script: each
attempt completes after a delay drawn from a grid by the solver, with success or OSError by solver choice; socket creation is a
counting fake (open/closed set; bind() may fail by solver choice when a local address is requested); the caller is cancelled at a
solver-chosen loop iteration (or not at all).
Asserted: if the call returns a socket it is open and every other socket created during the race is closed; if it raises (all
attempts failed -> exception group, or cancelled) every socket created is closed; the call always finishes.
"""

from __future__ import annotations

import math
import socket as real_socket

import easynetwork.lowlevel.api_async.backend._common.dns_resolver as dns_mod
from easynetwork.lowlevel.api_async.backend._common.dns_resolver import BaseAsyncDNSResolver

from sx.engine import Outcome

from .asyncenv import backend, loop_context

NONTRIVIAL_RULE = "at least two sockets were created during the race, or the caller was cancelled while attempts were in flight"
STUBS = [
    "connect_socket(): scripted attempt (delay from a grid, success or OSError)",
    "dns_resolver._socket replaced by a proxy whose socket() is a counting fake (bind may fail)",
    "DetLoop virtual clock",
]
ASSUMPTIONS = ["delays come from the grid {0, 1, 2, 3} ticks and the stagger delay from {1.5, inf} (every strict order and tie of the attempt completions relative to the stagger is realised); values are concrete when they reach asyncio's timer heap"]
BOUNDS = {"quick": "2-3 addresses (v6/v4 mixes), one optional caller cancellation at iteration 0..8, optional local address with bind faults", "thorough": "3 addresses, finer grid"}
OUTSIDE = "real connect(), getaddrinfo, trio backend"

GRID = [0, 1, 2, 3]


class FakeSock:
    registry = None

    def __init__(self, family, type=0, proto=0):
        self.family = family
        self.closed = False
        self.bound = None
        FakeSock.registry.append(self)

    def bind(self, addr):
        if FakeSock.bind_fails(self, addr):
            raise OSError(98, "address in use")
        self.bound = addr

    def setblocking(self, flag):
        pass

    def close(self):
        self.closed = True

    def fileno(self):
        return -1 if self.closed else 7


class _SocketModuleProxy:
    def __init__(self):
        self.socket = FakeSock

    def __getattr__(self, name):
        return getattr(real_socket, name)


class ScriptedResolver(BaseAsyncDNSResolver):
    def __init__(self, be, script):
        self.be = be
        self.script = script
        self.attempts = 0

    async def connect_socket(self, socket, address):
        self.attempts += 1
        delay, ok = self.script(address)
        if delay:
            await self.be.sleep(delay)
        else:
            await self.be.coro_yield()
        if not ok:
            raise OSError(111, "refused")


def race(families: list, stagger, local: bool = False, Kmax: int = 8, cancel: bool = True, ks: list = (), grid: list = ()):
    def scenario(S):
        addrs = []
        for i, fam in enumerate(families):
            f = real_socket.AF_INET6 if fam == 6 else real_socket.AF_INET
            addrs.append((f, real_socket.SOCK_STREAM, 0, "", (f"h{i}", 80)))
        plan = {}
        for i in range(len(addrs)):
            plan[f"h{i}"] = (S.pick(list(grid) or GRID, f"delay{i}"), bool(S.pick([0, 1], f"ok{i}")))
        k = S.pick(list(ks) if ks else list(range(Kmax + 2)), "cancel_at") if cancel else Kmax + 1  # Kmax+1 = never
        local_info = None
        bind_fail = set()
        if local:
            local_info = [(real_socket.AF_INET, real_socket.SOCK_STREAM, 0, "", ("127.0.0.1", 0))]
            if S.pick([0, 1], "bind_fails"):
                bind_fail.add("all")
        saved = dns_mod._socket
        FakeSock.registry = []
        FakeSock.bind_fails = staticmethod(lambda sock, addr: bool(bind_fail))
        try:
            dns_mod._socket = _SocketModuleProxy()
            with loop_context() as loop:
                be = backend()
                res = ScriptedResolver(be, lambda address: plan[address[0]])
                st = {"result": None, "sock": None}

                async def run():
                    try:
                        st["sock"] = await res._staggered_race_connection_impl(be, remote_addrinfo=addrs, local_addrinfo=local_info, happy_eyeballs_delay=stagger)
                        st["result"] = "returned"
                    except BaseException as e:  # noqa: BLE001
                        st["result"] = "cancelled" if type(e).__name__ == "CancelledError" else "raised:" + type(e).__name__
                        if st["result"] == "cancelled":
                            raise

                task = loop.create_task(run())
                cancelled_in_flight = False
                for i in range(Kmax + 1):
                    if i == k and not task.done():
                        cancelled_in_flight = True
                        task.cancel()
                    loop.step()
                for _ in range(40):
                    if task.done():
                        break
                    loop.step()
                socks = list(FakeSock.registry)
                ok = task.done()
                problems = []
                if not task.done():
                    problems.append("never finished")
                if st["result"] == "returned":
                    s = st["sock"]
                    if s is None or s.closed:
                        ok = False
                        problems.append("returned socket is closed")
                    for o in socks:
                        if o is not s and not o.closed:
                            ok = False
                            problems.append("a losing socket was left open")
                else:
                    for o in socks:
                        if not o.closed:
                            ok = False
                            problems.append(f"socket leaked after {st['result']}")
                    anyok = any(v[1] for v in plan.values())
                    if st["result"] is not None and st["result"].startswith("raised:") and "Group" not in st["result"]:
                        ok = False
                        problems.append("failure not reported as an exception group")
                tags = []
                if len(socks) >= 2:
                    tags.append("multi-socket")
                if cancelled_in_flight:
                    tags.append("cancelled-in-flight")
                return Outcome(ok=ok, skeleton=(st["result"], len(socks), [o.closed for o in socks]), tags=tuple(tags), detail={"problems": problems, "result": st["result"], "sockets": [(o.family, o.closed) for o in socks], "plan": {a: v for a, v in plan.items()}, "cancel_at": k})
        finally:
            dns_mod._socket = saved

    return scenario


def shards(tier: str):
    out = []
    quick = tier == "quick"
    B = 200 if quick else 1200
    fams = [[4, 4], [6, 4], [6, 4, 4], [4, 6, 6]] if quick else [[4, 4], [6, 4], [6, 4, 4], [4, 6, 6], [6, 6, 4]]
    for f in fams:
        for stagger in (1.5, math.inf):
            for local in (False, True):
                if quick and local and len(f) == 3 and stagger == math.inf:
                    continue
                nm = "".join(map(str, f))
                groups = [[]] if len(f) < 3 else [[0, 1, 2], [3, 4, 5], [6, 7, 8, 9]]  # shard the cancellation point for 3 addresses
                if quick and local and len(f) == 3 and f != [6, 4, 4]:
                    continue
                grid = [0, 1, 3] if (len(f) == 3 and quick) else []
                for gi, ks in enumerate(groups):
                    out.append({"name": f"race/{nm}/st{stagger}/{'local' if local else 'nolocal'}/k{gi}", "scenario": "props.c19:race", "params": dict(families=f, stagger=stagger, local=local, ks=ks, grid=grid), "budget": B, "cost": 8 ** len(f) * (len(ks) or 10), "per_path_timeout": 30})
    return out
