"""C18 - Server lifecycle operations are safe in every order (asynchronous server).

Real code: BaseAsyncNetworkServerImpl.serve_forever / server_activate / server_close / shutdown / is_serving / is_listening,
instantiated through the real AsyncTCPNetworkServer and AsyncUDPNetworkServer with a backend whose create_tcp_listeners() returns in-memory listeners
(listener creation suspends one loop iteration, so calls can land inside the activation window).  A solver-chosen history of
K lifecycle events - each: one loop iteration | start serve_forever() in a new task | start shutdown() in a new task | start
server_close() in a new task - is applied, optionally with one connected client whose on_disconnection hook suspends;
afterwards the run is completed (a final shutdown) and, if the server was not closed, it is served again.
Asserted: shutdown() returns only when serving has fully stopped (is_serving() false, no serve_forever() still winding down:
an immediate serve_forever() is not refused as already running, connected clients' disconnection hooks finished);
serve_forever() ends only as: returned after a shutdown/close, ServerAlreadyRunning (another one was running), or
ServerClosedError (server closed) - never an AssertionError or other exception; after server_close() every listener is closed and
serve_forever() raises ServerClosedError; a stopped-but-not-closed server serves again; every call finishes (no deadlock).
"""

from __future__ import annotations

import logging

from easynetwork.exceptions import BusyResourceError, ServerAlreadyRunning, ServerClosedError
from easynetwork.protocol import DatagramProtocol, StreamProtocol
from easynetwork.servers.async_tcp import AsyncTCPNetworkServer
from easynetwork.servers.async_udp import AsyncUDPNetworkServer
from easynetwork.servers.handlers import AsyncDatagramRequestHandler, AsyncStreamRequestHandler

from sx.engine import Outcome

from . import streamlib as L
from .asyncenv import MemServerBackend, MemStreamTransport, loop_context

NONTRIVIAL_RULE = "two lifecycle calls overlapped (a call was started while another had not finished), or a call landed in the listener-creation window"
STUBS = ["DetLoop; MemServerBackend.create_tcp_listeners -> in-memory listeners (creation suspends 1 iteration); MemStreamTransport client"]
ASSUMPTIONS = ["the threaded standalone servers (OS threads, ThreadsPortal) are NOT claimed: thread interleavings cannot be made symbolic by any installed engine; only two sequential steps are checked: the hand-off post-condition of NetworkServerThread.run() (server-thread shard) and one shutdown(timeout) step of BaseStandaloneNetworkServerImpl from a directly constructed state (standalone/shutdown-step)"]
BOUNDS = {"quick": "K <= 5 lifecycle events from {step, serve_forever, shutdown, server_close}, with/without one connected client", "thorough": "K <= 7"}
OUTSIDE = "standalone (threaded) servers, real listeners"


class Handler(AsyncStreamRequestHandler):
    def __init__(self, be, log):
        self.be = be
        self.log = log

    async def handle(self, client):
        yield None

    async def on_connection(self, client):
        self.log.append("connected")

    async def on_disconnection(self, client):
        self.log.append("disconnecting")
        await self.be.coro_yield()
        await self.be.coro_yield()
        self.log.append("disconnected")


class UDPHandler(AsyncDatagramRequestHandler):
    def __init__(self, be, log):
        self.be = be
        self.log = log

    async def handle(self, client):
        # one datagram's handler suspends: shutdown() must wait for it (or cancel it) before it returns
        yield None
        self.log.append("disconnecting")
        try:
            await self.be.coro_yield()
            await self.be.coro_yield()
        finally:
            self.log.append("disconnected")


def lifecycle(K: int, client: bool, prefix: list = (), warm: bool = False, udp: bool = False):
    def scenario(S):
        with loop_context() as loop:
            be = MemServerBackend(listener_delay=1)
            log = []
            logger = logging.getLogger("verif.c18")
            logger.disabled = True
            if udp:
                server = AsyncUDPNetworkServer("h", 0, DatagramProtocol(L.RawFixed(1)), UDPHandler(be, log), be, logger=logger)
            else:
                server = AsyncTCPNetworkServer("h", 0, StreamProtocol(L.RawSep(b"\n", limit=8)), Handler(be, log), be, logger=logger)

            def connect():
                if udp:
                    be.listeners[0].inject(b"x", ("10.0.0.1", 1))
                else:
                    be.listeners[0].connect(MemStreamTransport(be, b"", available=0, loop=loop))
            ops = []  # dict(kind, task, result)
            st = {"overlap": 0, "closed_started": False, "problems": []}

            def running(kind=None):
                return [o for o in ops if not o["task"].done() and (kind is None or o["kind"] == kind)]

            async def run(op):
                kind = op["kind"]
                try:
                    if kind == "serve":
                        await server.serve_forever()
                    elif kind == "shutdown":
                        await server.shutdown()
                        # ---- the moment shutdown() returns --------------------------------------------
                        if server.is_serving():
                            st["problems"].append("shutdown() returned while is_serving() is true")
                        if "disconnecting" in log and "disconnected" not in log:
                            st["problems"].append("shutdown() returned while a client's disconnection hook was still running")
                        op["serve_running_at_return"] = len(running("serve"))
                    else:
                        st["close_calls"] = st.get("close_calls", 0) + 1
                        await server.server_close()
                        st["closed_started"] = True  # (a refused call raises before this line)
                        if server.is_listening():
                            st["problems"].append("server_close() returned while is_listening() is true")
                    op["result"] = "returned"
                except ServerAlreadyRunning:
                    op["result"] = "already-running"
                except ServerClosedError:
                    op["result"] = "closed"
                except BusyResourceError:
                    # server_close() during serve_forever()'s set-up window is refused by a documented guard
                    # ("Cannot close server during serve_forever() setup."): a refusal, not a close
                    op["result"] = "refused-busy"
                    if kind != "close":
                        op["result"] = "raised:BusyResourceError"
                except BaseException as e:  # noqa: BLE001
                    op["result"] = "cancelled" if type(e).__name__ == "CancelledError" else "raised:" + type(e).__name__ + ":" + str(e)[:60]
                    if op["result"] == "cancelled":
                        raise

            def start(kind):
                if running():
                    st["overlap"] += 1
                op = {"kind": kind, "result": None, "others_serving": len(running("serve"))}
                ops.append(op)
                op["task"] = loop.create_task(run(op))

            connected = False
            if warm:
                # start from a serving server (with its client connected, if any): the solver's events then explore the
                # stop / close / restart interleavings from there
                start("serve")
                for _ in range(8):
                    loop.step()
                    if server.is_serving():
                        break
                if client and be.listeners:
                    connected = True
                    connect()
                    loop.step()
                    loop.step()
            for i in range(K):
                c = prefix[i] if i < len(prefix) else S.choice(4, f"ev{i}")
                if c == 0:
                    loop.step()
                elif c == 1:
                    start("serve")
                elif c == 2:
                    start("shutdown")
                else:
                    start("close")
                if client and not connected and be.listeners and server.is_serving():
                    connected = True
                    connect()
            # ---- complete the run: stop whatever is serving -------------------------------------------
            for _ in range(6):
                loop.step()
            start("shutdown")
            done = False
            for _ in range(60):
                loop.step()
                if not running():
                    done = True
                    break
            if not done:
                st["problems"].append("a lifecycle call never finished: " + ",".join(o["kind"] for o in running()))
            for o in ops:
                r = o["result"]
                if r is None:
                    continue
                if r.startswith("raised:"):
                    st["problems"].append(f"{o['kind']}() raised {r[7:]}")
                if o["kind"] == "serve" and r == "already-running" and o["others_serving"] == 0:
                    st["problems"].append("serve_forever() refused as already running although no other serve_forever() was running")
                if o["kind"] == "serve" and r == "closed" and not st.get("close_calls"):
                    st["problems"].append("ServerClosedError although server_close() was never called")
                if o["kind"] != "serve" and r not in ("returned", "refused-busy"):
                    st["problems"].append(f"{o['kind']}() ended with {r}")
            if st["closed_started"]:
                for lst in be.listeners:
                    if not lst.closed:
                        st["problems"].append("a listener is still open after server_close()")
            # ---- serve again (or be refused for good) ---------------------------------------------------
            if done:
                again = {"kind": "serve", "result": None, "others_serving": 0}
                again["task"] = loop.create_task(run(again))
                for _ in range(8):
                    loop.step()
                if st["closed_started"]:
                    if again["result"] != "closed":
                        st["problems"].append(f"closed server: serve_forever() -> {again['result']} instead of ServerClosedError")
                else:
                    if again["result"] is not None or not server.is_serving():
                        st["problems"].append(f"stopped (not closed) server does not serve again: {again['result']}")
                    second = {"kind": "serve", "result": None, "others_serving": 1}
                    second["task"] = loop.create_task(run(second))
                    for _ in range(4):
                        loop.step()
                    if second["result"] != "already-running":
                        st["problems"].append(f"second concurrent serve_forever() -> {second['result']} instead of ServerAlreadyRunning")
                    fin = {"kind": "shutdown", "result": None, "others_serving": 1}
                    fin["task"] = loop.create_task(run(fin))
                    for _ in range(30):
                        loop.step()
                        if fin["task"].done() and again["task"].done():
                            break
                    if not (fin["task"].done() and again["task"].done()):
                        st["problems"].append("final shutdown did not stop the server")
            if loop.exceptions:
                st["problems"].append("loop exception: " + str(loop.exceptions[0].get("message")))
            ok = not st["problems"]
            tags = []
            if st["overlap"]:
                tags.append("overlapping-calls")
            if connected:
                tags.append("client-connected")
            return Outcome(ok=ok, skeleton=[(o["kind"], o["result"]) for o in ops], tags=tuple(tags), detail={"problems": st["problems"], "ops": [(o["kind"], o["result"]) for o in ops], "log": log})

    return scenario


def server_thread():
    """NetworkServerThread hand-off (threads_helper.py): start() = Thread.start() + wait for the 'server is up' event, which run()
    must set in EVERY way serve_forever() can end - otherwise start() waits forever.  run() is executed here in the calling thread
    (no OS thread) around a stub server whose serve_forever() ends in a solver-chosen way (sets the event and returns later / returns
    without ever setting it, as when shutdown() lands during start-up / raises ServerClosedError, ServerAlreadyRunning or another
    exception before or after setting it).  Asserted: when run() is over, the event start() waits on is set."""
    from easynetwork.servers.abc import AbstractNetworkServer
    from easynetwork.servers.threads_helper import NetworkServerThread

    def scenario(S):
        ending = S.choice(4, "ending")  # 0 return | 1 ServerClosedError | 2 ServerAlreadyRunning | 3 ValueError
        sets_event = S.choice(2, "sets_event")

        class Stub(AbstractNetworkServer):
            def is_serving(self):
                return False

            def server_close(self):
                pass

            def shutdown(self, timeout=None):
                pass

            def get_addresses(self):
                return ()

            def serve_forever(self, *, is_up_event=None):
                if sets_event and is_up_event is not None:
                    is_up_event.set()
                if ending == 1:
                    raise ServerClosedError("Closed server")
                if ending == 2:
                    raise ServerAlreadyRunning("Server is already running")
                if ending == 3:
                    raise ValueError("boom")

        th = NetworkServerThread(Stub(), daemon=True)
        raised = None
        try:
            th.run()
        except Exception as e:  # noqa: BLE001
            raised = type(e).__name__
        ev = th._NetworkServerThread__is_up_event
        problems = []
        if not ev.is_set():
            problems.append("run() is over but the 'server is up' event is not set: NetworkServerThread.start() would wait forever")
        tags = ("ended-before-up",) if not sets_event else ()
        return Outcome(ok=not problems, skeleton=[ending, sets_event], tags=tags, detail={"problems": problems, "ending": ending, "sets_event": sets_event, "raised": raised})

    return scenario


def standalone_shutdown():
    """One step of BaseStandaloneNetworkServerImpl.shutdown(timeout) from a directly constructed state (no OS thread): the object
    is 'serving' (threads portal + embedded server present, tear-down not finished: the is-shutdown event is clear) or idle.  The
    portal's run_coroutine() returns after a solver-chosen time or fails the way a closing portal does (RuntimeError /
    concurrent.futures.CancelledError); the event stub models the serving thread finishing its tear-down (within a finite wait: solver's
    choice; an untimed wait lasts until it does).  Asserted: shutdown(None) returns only with the event set (serving fully stopped);
    shutdown(T) returns with the event set or after a bounded wait (never an untimed one, never longer than T)."""
    import concurrent.futures

    from easynetwork.lowlevel import _utils
    from easynetwork.servers._base import BaseStandaloneNetworkServerImpl

    from .syncenv import Env, patched_clock

    def scenario(S):
        env = Env(S, fuel=50, max_eagain=0)
        T = [None, 0, 1, 2][S.choice(4, "timeout")]
        serving = S.choice(2, "serving")
        portal_end = S.choice(3, "portal_end")  # 0 returns | 1 RuntimeError | 2 concurrent CancelledError
        took = S.choice(3, "took")

        class Srv(BaseStandaloneNetworkServerImpl):
            __slots__ = ()

            def get_addresses(self):
                return ()

        class Event:
            def __init__(self):
                self.flag = not serving
                self.waits = []

            def is_set(self):
                return self.flag

            def set(self):
                self.flag = True

            def clear(self):
                self.flag = False

            def wait(self, timeout=None):
                self.waits.append(timeout)
                if self.flag:
                    return True
                if timeout is None or S.choice(2, "teardown_done_in_time"):
                    self.flag = True  # the serving thread finished its tear-down while we were waiting
                return self.flag

        class Portal:
            def run_coroutine(self, f, *args):
                c = f(*args)
                c.close()
                env.now = env.now + took
                if portal_end == 1:
                    raise RuntimeError("ThreadsPortal not running.")
                if portal_end == 2:
                    raise concurrent.futures.CancelledError()

            def run_sync(self, f, *args):
                return f(*args)

        class Embedded:
            async def shutdown(self):
                pass

            def backend(self):
                return srv._BaseStandaloneNetworkServerImpl__backend

        srv = Srv("asyncio", lambda be: None)
        ev = Event()
        srv._BaseStandaloneNetworkServerImpl__is_shutdown = ev
        if serving:
            srv._BaseStandaloneNetworkServerImpl__threads_portal = Portal()
            srv._BaseStandaloneNetworkServerImpl__server = Embedded()
        problems = []
        with patched_clock(env):
            try:
                srv.shutdown(T) if T is not None else srv.shutdown()
            except Exception as e:  # noqa: BLE001
                problems.append("shutdown() raised " + repr(e)[:80])
        if T is None:
            if not ev.flag:
                problems.append("shutdown() returned while serving had not fully stopped (the is-shutdown event is still clear)")
        else:
            if not ev.flag and not ev.waits:
                problems.append("shutdown(timeout) returned at once although serving had not stopped and the timeout was not used")
            for w in ev.waits:
                if w is None or w > T:
                    problems.append(f"shutdown(timeout={T}) waited {w!r} for the end of serving")
        tags = ("serving",) if serving else ()
        return Outcome(ok=not problems, skeleton=[T, serving, portal_end, took, len(ev.waits)], tags=tags, detail={"problems": problems, "timeout": T, "serving": serving, "portal_end": portal_end, "took": took, "waits": ev.waits})

    return scenario


def shards(tier: str):
    import itertools

    out = []
    quick = tier == "quick"
    B = 200 if quick else 1200
    K = 5 if quick else 7
    for client in (False, True):
        for warm in (False, True):
            if warm and not client and quick:
                continue
            for pre in itertools.product(range(4), repeat=2):
                out.append({"name": f"lifecycle/{'client' if client else 'noclient'}/{'warm' if warm else 'cold'}/K{K}/pre{pre[0]}{pre[1]}", "scenario": "props.c18:lifecycle", "params": dict(K=K, client=client, warm=warm, prefix=list(pre)), "budget": B, "cost": 4 ** (K - 2), "per_path_timeout": 30})
    # the datagram server shares the lifecycle base class but has its own activation / tear-down hooks
    for client in (False, True):
        for warm in (False, True):
            if warm != client and quick:
                continue
            for pre in itertools.product(range(4), repeat=2):
                out.append({"name": f"lifecycle-udp/{'datagram' if client else 'idle'}/{'warm' if warm else 'cold'}/K{K}/pre{pre[0]}{pre[1]}", "scenario": "props.c18:lifecycle", "params": dict(K=K, client=client, warm=warm, prefix=list(pre), udp=True), "budget": B, "cost": 4 ** (K - 2), "per_path_timeout": 30})
    out.append({"name": "standalone/shutdown-step", "scenario": "props.c18:standalone_shutdown", "params": {}, "budget": B, "cost": 100, "per_path_timeout": 30})
    out.append({"name": "server-thread/handoff", "scenario": "props.c18:server_thread", "params": {}, "budget": B, "cost": 8, "per_path_timeout": 30})
    return out
