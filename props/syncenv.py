"""In-memory environment for the blocking (selector based) transports: a fake non-blocking kernel socket, a stub
selector and a virtual clock, all driven by solver variables handed out by the scenario's Sym factory.

Contracts assumed (the only thing the stubs implement):
  socket.send/sendmsg(total bytes offered)  -> returns n with 1 <= n <= total (0 iff total == 0) or raises BlockingIOError
  socket.recv/recv_into(room)               -> returns 1..min(room, available) bytes, b"" at EOF, BlockingIOError if nothing yet
  selector.select(w)                        -> returns after e <= w ticks; "not ready" only if the full w elapsed;
                                               "ready" although the socket has nothing to deliver (spurious wake-up) at most K times
  clock (time.perf_counter as seen by easynetwork.lowlevel._utils) is non-decreasing; code between waits costs 0 ticks
Time unit: integer ticks (exact arithmetic; IEEE rounding of real clocks is outside the claim).
"""

from __future__ import annotations

import math
import selectors
import socket

from easynetwork.lowlevel import _utils


class Fuel(BaseException):
    """More environment calls than any terminating run needs: the operation spins."""


class Env:
    """Shared state: virtual clock, script decisions (taken from the Sym factory S), accounting."""

    def __init__(self, S, *, fuel: int, max_eagain: int, elapsed_max: int = 4, cap: int = 16, symbolic_time: bool = True):
        self.S = S
        self.symbolic_time = symbolic_time
        self.cap = cap
        self.now = 0
        self.fuel = fuel
        self.calls = 0
        self.eagain_left = max_eagain
        self.eagains = 0
        self.elapsed_max = elapsed_max
        self.selects = []  # (wait asked or None, elapsed, ready)
        self.spurious_left = max_eagain
        self.ready_possible = lambda event: True  # set by the socket: can the awaited event really happen now?
        self.waited_at_zero = False
        self.positive_wait_selects = 0

    def tick(self):
        self.calls += 1
        if self.calls > self.fuel:
            raise Fuel()

    # -- clock -------------------------------------------------------------------------------
    def perf_counter(self):
        return self.now

    # -- script decisions ----------------------------------------------------------------------
    def decide_eagain(self) -> bool:
        if self.eagain_left <= 0:
            return False
        if self.S.bool("eagain"):
            self.eagain_left -= 1
            self.eagains += 1
            return True
        return False

    def decide_amount(self, total):
        """how many of the `total` offered bytes the kernel takes: 1..total (0 iff total == 0); total may be symbolic"""
        if total <= 1:
            return total
        a = self.S.int(1, self.cap, "acc")
        self.S.assume(a <= total)
        return a


class _FakeTime:
    """stands for the `time` module as seen by easynetwork.lowlevel._utils (ElapsedTime reads time.perf_counter)."""

    def __init__(self, env, real):
        self._env = env
        self._real = real

    def perf_counter(self):
        return self._env.perf_counter()

    def __getattr__(self, name):
        return getattr(self._real, name)


class patched_clock:
    def __init__(self, env):
        self.env = env

    def __enter__(self):
        self._saved = _utils.time
        _utils.time = _FakeTime(self.env, self._saved)
        return self

    def __exit__(self, *a):
        _utils.time = self._saved


class StubSelector:
    """selectors.BaseSelector look-alike created by selector_factory()."""

    def __init__(self, env: Env):
        self.env = env
        self.registered = None

    def __enter__(self):
        return self

    def __exit__(self, *a):
        return None

    def register(self, fileno, events, data=None):
        if fileno < 0:
            raise ValueError("Invalid file descriptor")
        self.registered = (fileno, events)

    def close(self):
        pass

    def select(self, timeout=None):
        env = self.env
        env.tick()
        S = env.S
        possible = env.ready_possible(self.registered[1])
        if getattr(env, "hidden_ready", False):
            # the awaited event is never REPORTED by the selector although the operation would succeed when retried (what
            # retry_interval exists for: e.g. data already sitting in a TLS object's buffer).  An untimed wait blocks forever.
            possible = False
            env.spurious_left = 0
        if timeout is None:
            if not possible:
                if env.spurious_left <= 0:
                    raise Fuel()  # an infinite wait for an event that never comes: blocks forever
                env.spurious_left -= 1
            e = S.int(0, env.elapsed_max, "el") if env.symbolic_time else 0
            env.now = env.now + e
            env.selects.append((None, e, True))
            return [(self.registered, self.registered[1])]
        if timeout > 0:
            env.positive_wait_selects += 1
        if possible:
            ready = S.bool("ready")
        elif env.spurious_left > 0:
            ready = S.bool("ready")
            if ready:
                env.spurious_left -= 1
        else:
            ready = False
        if ready:
            e = S.int(0, env.elapsed_max, "el")
            S.assume(e <= timeout)
        else:
            e = timeout  # "not ready" is only reported after the full wait
        env.now = env.now + e
        env.selects.append((timeout, e, ready))
        return [(self.registered, self.registered[1])] if ready else []


class FakeSocket(socket.socket):
    """A real (never connected) socket object whose I/O methods are scripted; used under SocketStreamTransport."""

    def __init__(self, env: Env, incoming=b"", eof_after: bool = True, eof_once: bool = False):
        super().__init__(socket.AF_INET, socket.SOCK_STREAM)
        self.env = env
        self.wire = []  # bytes accepted by the "kernel", in order
        self.send_calls = 0
        self.incoming = incoming
        self.rpos = 0
        self.eof_after = eof_after
        env.ready_possible = self._ready_possible
        self.eof_once = eof_once
        self.eof_returned = False

    def _ready_possible(self, event):
        # write side: a writable socket always accepts something; read side: data left, or EOF pending
        if event == selectors.EVENT_WRITE:
            return True
        return self.rpos < len(self.incoming) or (self.eof_after and not (self.eof_once and self.eof_returned))

    def really_close(self):
        socket.socket.close(self)

    def setblocking(self, flag):
        pass

    def getsockname(self):
        return ("127.0.0.1", 1)

    def getpeername(self):
        return ("127.0.0.1", 2)

    def shutdown(self, how):
        pass

    pending_so_error = 0

    def getsockopt(self, level, optname, *a):
        if level == socket.SOL_SOCKET and optname == socket.SO_ERROR:
            err, self.pending_so_error = self.pending_so_error, 0  # reading SO_ERROR resets it, like the kernel
            return err
        return socket.socket.getsockopt(self, level, optname, *a)

    # -- writes --------------------------------------------------------------------------------
    def _accept(self, data):
        env = self.env
        env.tick()
        self.send_calls += 1
        if env.decide_eagain():
            raise BlockingIOError(11, "would block")
        total = len(data)
        n = env.decide_amount(total)
        self.wire.append(data[:n])
        return n

    def send(self, data, *a):
        return self._accept(bytes(data))

    def sendmsg(self, buffers, *a):
        data = b""
        for b in buffers:
            data = data + bytes(b)
        return self._accept(data)

    def sent(self):
        out = b""
        for w in self.wire:
            out = out + w
        return out

    # -- reads ---------------------------------------------------------------------------------
    def _take(self, room):
        env = self.env
        env.tick()
        left = len(self.incoming) - self.rpos
        if left == 0:
            if self.eof_after and not (self.eof_once and self.eof_returned):
                self.eof_returned = True
                return b""
            raise BlockingIOError(11, "would block")
        if env.decide_eagain():
            raise BlockingIOError(11, "would block")
        m = left if left < room else room
        n = env.decide_amount(m)
        out = self.incoming[self.rpos : self.rpos + n]
        self.rpos += n
        return out

    def recv(self, bufsize, *a):
        return self._take(bufsize)

    def recv_into(self, buffer, nbytes=0, *a):
        with memoryview(buffer) as view:
            room = len(view)
            data = self._take(room)
            n = len(data)
            view[:n] = data
            return n


class FakeDatagramSocket(socket.socket):
    """A real (never connected) SOCK_DGRAM socket object whose I/O methods are scripted: a FIFO of whole datagrams stands for the
    kernel (send(d) enqueues exactly d - loopback -, recv() pops exactly one datagram, truncated to bufsize like the kernel does)."""

    def __init__(self, env: Env):
        super().__init__(socket.AF_INET, socket.SOCK_DGRAM)
        self.env = env
        self.queue = []
        self.sends = 0
        self.recvs = 0
        env.ready_possible = self._ready_possible

    def _ready_possible(self, event):
        if event == selectors.EVENT_WRITE:
            return True
        return len(self.queue) > 0

    def really_close(self):
        socket.socket.close(self)

    def setblocking(self, flag):
        pass

    def getsockname(self):
        return ("127.0.0.1", 1)

    def getpeername(self):
        return ("127.0.0.1", 2)

    def getsockopt(self, level, optname, *a):
        if level == socket.SOL_SOCKET and optname == socket.SO_ERROR:
            return 0
        return socket.socket.getsockopt(self, level, optname, *a)

    def send(self, data, *a):
        self.env.tick()
        if self.env.decide_eagain():
            raise BlockingIOError(11, "would block")
        self.sends += 1
        data = bytes(data)
        self.queue.append(data)
        return len(data)

    def recv(self, bufsize, *a):
        self.env.tick()
        if not self.queue:
            raise BlockingIOError(11, "would block")
        if self.env.decide_eagain():
            raise BlockingIOError(11, "would block")
        self.recvs += 1
        d = self.queue.pop(0)
        return d[:bufsize]


INF = math.inf
