"""C06 - Malformed network input only ever surfaces as a parse error.

Obligations:
  total     pure-Python part, symbolic bytes end to end: for every stream of N symbolic bytes, every chunking and
            both receive paths the only outcomes of consumer.next are a packet, StopIteration or
            StreamProtocolParseError; an error-skipping receive loop terminates within N+2 steps per read
            (each error consumes >= 1 byte, so at most N errors in total).
  oneshot   DatagramProtocol.build_packet_from_datagram on N symbolic bytes: a packet or DatagramProtocolParseError.
  mapping   error-mapping totality around the C decoders: the decode call raises a symbolically chosen exception
            class from the library's observable set; the serializer must turn it into a parse error.  The concrete
            side of every path does NOT use the stub: it feeds real bytes that make the real library raise that class.
"""

from __future__ import annotations

from easynetwork.exceptions import DatagramProtocolParseError, StreamProtocolParseError
from easynetwork.lowlevel._stream import BufferedStreamDataConsumer, StreamDataConsumer
from easynetwork.protocol import BufferedStreamProtocol, DatagramProtocol, StreamProtocol
from easynetwork.serializers.base_stream import FileBasedPacketSerializer
from easynetwork.serializers.json import JSONSerializer
from easynetwork.serializers.line import StringLineSerializer
from easynetwork.serializers.pickle import PickleSerializer
from easynetwork.serializers.struct import NamedTupleStructSerializer, StructSerializer
from easynetwork.serializers.wrapper.base64 import Base64EncoderSerializer
from easynetwork.serializers.wrapper.compressor import AbstractCompressorSerializer, BZ2CompressorSerializer, ZlibCompressorSerializer

from sx.engine import Outcome

from . import streamlib as L
from .c01 import IdentitySerializer, Point, _ToyComp

NONTRIVIAL_RULE = "at least one parse error was reported on the path (total/oneshot) / the decoder raised the chosen class (mapping)"
STUBS = [
    "RawSep / RawFixed harness leaves; CheckedToy: pure-Python decompressor raising its declared error on a bad header; LenFile: pure-Python length-prefixed load_from_file",
    "mapping obligation only: json.JSONDecoder.decode / zlib / bz2 / b64decode / Struct.unpack / Unpickler.load replaced (symbolic side) by a stub raising a symbolically chosen class of: json {JSONDecodeError, RecursionError, ValueError(int digits limit)}, zlib {zlib.error}, bz2 {OSError}, binascii {binascii.Error}, struct {struct.error}, pickle {UnpicklingError, RecursionError, EOFError, AttributeError, TypeError}; the concrete side feeds real bytes provoking that class",
]
ASSUMPTIONS = [
    "MemoryError / interpreter crashes of the C decoders are outside the claim",
    "the set of exception classes a C decoder can raise is the list above (observable behaviour of CPython 3.12 json/zlib/bz2/binascii/struct/pickle)",
]
BOUNDS = {
    "quick": "N <= 6 symbolic bytes, <= 2 cuts, both consumers; JSON raw parser over a 7-symbol alphabet with N <= 3",
    "thorough": "N <= 8, 3 cuts, larger JSON alphabet/N",
}
OUTSIDE = "memory exhaustion, decoders' own crashes, cbor/msgpack (not installed)"


class _CheckedDecomp:
    def __init__(self):
        self.need = -1
        self.eof = False
        self.unused_data = b""

    def decompress(self, data):
        data = bytes(data)
        if self.need < 0:
            if len(data) == 0:
                return b""
            n = data[0]
            if n > 3:
                raise ValueError("bad header")
            self.need = n
            data = data[1:]
        take = data[: self.need]
        self.need -= len(take)
        if self.need == 0:
            self.eof = True
            self.unused_data = data[len(take) :]
        return take


class CheckedToy(AbstractCompressorSerializer):
    __slots__ = ()

    def __init__(self):
        super().__init__(L.RawFixed(2), expected_decompress_error=ValueError)

    def new_compressor_stream(self):
        return _ToyComp()

    def new_decompressor_stream(self):
        return _CheckedDecomp()


class LenFile(FileBasedPacketSerializer):
    """length-prefixed records: [n][n bytes]; n > 2 is an (expected) format error."""

    __slots__ = ()

    def __init__(self, limit):
        super().__init__(expected_load_error=ValueError, limit=limit)

    def dump_to_file(self, packet, file):
        file.write(bytes([len(packet)]) + packet)

    def load_from_file(self, file):
        h = file.read(1)
        if not h:
            raise EOFError
        n = h[0]
        if n > 2:
            raise ValueError("bad length")
        body = file.read(n)
        if len(body) < n:
            raise EOFError
        return body


def _make(kind: str, limit: int):
    if kind == "rawsep1":
        return L.RawSep(b"\n", limit=limit)
    if kind == "rawsep2":
        return L.RawSep(b"\r\n", limit=limit)
    if kind == "rawsep3":
        return L.RawSep(L.SEPS[3], limit=limit)
    if kind == "rawfixed":
        return L.RawFixed(2)
    if kind == "line":
        return StringLineSerializer("LF", limit=limit, encoding="ascii")
    if kind == "linecrlf-keep":
        return StringLineSerializer("CRLF", limit=limit, encoding="ascii", keep_end=True)
    if kind == "toy":
        return CheckedToy()
    if kind == "lenfile":
        return LenFile(limit)
    if kind == "json":
        return _stub_json(JSONSerializer(limit=limit, use_lines=False))
    if kind == "jsonl":
        return _stub_json(JSONSerializer(limit=limit, use_lines=True))
    raise ValueError(kind)


class _StubDecoder:
    """stands for json.JSONDecoder.decode in the *framing* obligations: value for documents starting with a digit, JSONDecodeError otherwise."""

    def decode(self, document):
        from json import JSONDecodeError

        d = document.strip()
        if len(d) > 0 and d[0] == "1":
            return 1
        raise JSONDecodeError("stub", "", 0)


def _stub_json(ser):
    ser._JSONSerializer__decoder = _StubDecoder()
    return ser


JSON_ALPHABET = (0x5B, 0x5D, 0x7B, 0x22, 0x5C, 0x20, 0x31)  # [ ] { " \ space 1


def total(kind: str, N: int, cuts: int, path: str, limit: int = 4, hint: int = 3):
    def scenario(S):
        ser = _make(kind, limit)
        if kind in ("json", "jsonl"):
            stream = S.bytes_in(N, JSON_ALPHABET + ((0x0A,) if kind == "jsonl" else ()), "d")
        elif kind == "lenfile":
            stream = S.bytes_in(N, (0, 1, 2, 3, 0x21), "d")
        else:
            stream = S.bytes(N, "d")
        cs = L.sorted_cuts(S, cuts, N)
        pieces = L.split_at(stream, cs)
        fuel_per_drain = N + 3
        state = {"errs": 0, "pkts": 0, "hang": False}

        def drain(consumer, arg):
            steps = 0
            while True:
                steps += 1
                if steps > fuel_per_drain:
                    state["hang"] = True
                    return
                try:
                    consumer.next(arg)
                    state["pkts"] += 1
                except StopIteration:
                    return
                except StreamProtocolParseError:
                    state["errs"] += 1
                arg = None

        try:
            if path == "copy":
                c = StreamDataConsumer(StreamProtocol(ser))
                for ch in pieces:
                    if len(ch) > 0:
                        drain(c, ch)
            else:
                c = BufferedStreamDataConsumer(BufferedStreamProtocol(ser), hint)
                for ch in pieces:
                    pos = 0
                    total_n = len(ch)
                    while pos < total_n:
                        drain(c, None)
                        with memoryview(c.get_write_buffer()) as view:
                            n = total_n - pos
                            if len(view) < n:
                                n = len(view)
                            view[:n] = ch[pos : pos + n]
                        pos += n
                        drain(c, n)
        except Exception as e:  # noqa: BLE001   anything that is not a parse error escaped
            return Outcome(ok=False, skeleton=("escaped", type(e).__name__), tags=("escaped",), detail={"escaped": repr(e), "cause": repr(e.__cause__)})
        ok = (not state["hang"]) and state["errs"] <= N
        tags = ("parse-error",) if state["errs"] else ()
        return Outcome(ok=ok, skeleton=(state["pkts"], state["errs"], state["hang"]), tags=tags, detail=dict(state))

    return scenario


def oneshot(kind: str, N: int, limit: int = 8):
    def scenario(S):
        ser = _make(kind, limit)
        if kind in ("json", "jsonl"):
            d = S.bytes_in(N, JSON_ALPHABET, "d")
        elif kind == "lenfile":
            d = S.bytes_in(N, (0, 1, 2, 3, 0x21), "d")
        else:
            d = S.bytes(N, "d")
        proto = DatagramProtocol(ser)
        try:
            proto.build_packet_from_datagram(d)
            r = "pkt"
        except DatagramProtocolParseError:
            r = "err"
        except Exception as e:  # noqa: BLE001
            return Outcome(ok=False, skeleton=("escaped", type(e).__name__), tags=("escaped",), detail={"escaped": repr(e)})
        return Outcome(ok=True, skeleton=r, tags=("parse-error",) if r == "err" else ())

    return scenario


# --------------------------------------------------------------------------------------
# mapping obligation


def _mapping_specs(target: str):
    """-> (make serializer, install stub(ser, factory), benign frame, terminator for stream mode, [(class name, exception factory, real witness bytes)])"""
    import binascii
    import json
    import pickle
    import zlib

    def stub_obj(**methods):
        return type("Stub", (), methods)()

    if target in ("json", "json-lines", "json-debug", "json-lines-debug"):

        def install(ser, factory):
            def decode(self, document):
                raise factory()

            ser._JSONSerializer__decoder = stub_obj(decode=decode)

        return (
            lambda: JSONSerializer(use_lines=target.startswith("json-lines"), debug=target.endswith("-debug")),
            install,
            b"[1]",
            b"\n",
            [
                ("JSONDecodeError", lambda: json.JSONDecodeError("x", "", 0), b"[1,]"),
                ("RecursionError", lambda: RecursionError("maximum recursion depth exceeded"), b"[" * 20000 + b"]" * 20000),
                ("ValueError-int-digits", lambda: ValueError("Exceeds the limit (4300 digits) for integer string conversion"), b"1" * 5000),
            ],
        )
    if target == "pickle":

        def install(ser, factory):
            def load(self):
                raise factory()

            ser._PickleSerializer__unpickler_cls = lambda buffer: stub_obj(load=load)

        return (
            lambda: PickleSerializer(),
            install,
            pickle.dumps(1, protocol=4),
            None,
            [
                ("UnpicklingError", lambda: pickle.UnpicklingError("invalid load key"), b"\xff\xfe\xfd"),
                ("EOFError", lambda: EOFError("Ran out of input"), b""),
                ("TypeError", lambda: TypeError("'NoneType' object is not callable"), b"\x80\x04N)R."),
                ("OverflowError", lambda: OverflowError("byte string is too large"), b"\x80\x04\x8e\xff\xff\xff\xff\xff\xff\xff\x7f."),
                ("UnicodeDecodeError", lambda: UnicodeDecodeError("utf-8", b"\xff", 0, 1, "invalid start byte"), b"\x80\x04\x8c\x02\xff\xfe."),
                ("ValueError", lambda: ValueError("could not convert string to int"), b"Iabc\n."),
                ("ModuleNotFoundError", lambda: ModuleNotFoundError("No module named x"), b"cnosuchmodule_xyz\nx\n."),
                ("AttributeError", lambda: AttributeError("Can't get attribute"), b"cos\nnosuchattr\n."),
                # exceptions raised by the callable that rebuilds an object (bit flips of structurally valid pickles)
                ("ZeroDivisionError", lambda: ZeroDivisionError("division by zero"), b"cbuiltins\ndivmod\n(I1\nI0\ntR."),
                ("re.error", lambda: __import__("re").error("nothing to repeat"), b"cre\ncompile\n(S'a+*'\ntR."),
                ("KeyError", lambda: KeyError("k"), b"coperator\ngetitem\n((dS'k'\ntR."),
            ],
        )
    if target in ("zlib", "bz2"):
        attr = "_ZlibCompressorSerializer__decompressor_factory" if target == "zlib" else "_BZ2CompressorSerializer__decompressor_factory"
        cls = ZlibCompressorSerializer if target == "zlib" else BZ2CompressorSerializer

        def install(ser, factory):
            def decompress(self, data):
                raise factory()

            setattr(ser, attr, lambda: stub_obj(decompress=decompress, eof=False, unused_data=b""))

        specs = [("zlib.error", lambda: zlib.error("Error -3 while decompressing data"), b"garbage")] if target == "zlib" else [("OSError", lambda: OSError("Invalid data stream"), b"garbage!!")]
        return (lambda: cls(IdentitySerializer()), install, b"xxxx", b"", specs)
    if target == "base64":

        def install(ser, factory):
            def decode(data):
                raise factory()

            ser._Base64EncoderSerializer__decode = decode

        return (lambda: Base64EncoderSerializer(IdentitySerializer()), install, b"YWJj", b"\r\n", [("binascii.Error", lambda: binascii.Error("Incorrect padding"), b"a")])
    raise ValueError(target)


def mapping(target: str, mode: str):
    """mode: oneshot (DatagramProtocol) | copy (incremental, through the copying consumer) | buf (buffer-filling consumer)"""

    def scenario(S):
        make, install, benign, terminator, specs = _mapping_specs(target)
        k = S.choice(len(specs), "exc")
        name, factory, witness = specs[k]
        ser = make()
        if S.symbolic:
            install(ser, factory)
            data = benign
        else:
            data = witness
        tag = "decoder-raised-" + name
        try:
            if mode == "oneshot":
                try:
                    DatagramProtocol(ser).build_packet_from_datagram(data)
                    r = "pkt"
                except DatagramProtocolParseError:
                    r = "err"
            elif mode == "copy":
                c = StreamDataConsumer(StreamProtocol(ser))
                try:
                    c.next(data + terminator)
                    r = "pkt"
                except StopIteration:
                    r = "more"
                except StreamProtocolParseError:
                    r = "err"
            else:
                ev, _left, _mb = L.drive_buffered(BufferedStreamProtocol(ser), [data + terminator], 64)
                r = "err" if ev and ev[0][0] == "err" else ("pkt" if ev else "more")
        except Exception as e:  # noqa: BLE001
            return Outcome(ok=False, skeleton=("escaped", k), tags=(tag,), detail={"decoder_exception": name, "escaped": repr(e)[:300], "cause": repr(e.__cause__)[:300], "input": repr(data[:40]) + f"... ({len(data)} bytes)"})
        return Outcome(ok=(r == "err"), skeleton=("mapped", k), tags=(tag,), detail={"decoder_exception": name, "result": r})

    return scenario


def shards(tier: str):
    out = []
    quick = tier == "quick"
    B = 150 if quick else 1200

    def add(name, fn, params, cost):
        out.append({"name": name, "scenario": f"props.c06:{fn}", "params": params, "budget": B, "cost": cost, "per_path_timeout": 15})

    for kind in ("rawsep1", "rawsep2", "rawsep3", "line", "linecrlf-keep", "rawfixed", "toy"):
        for path in ("copy", "buf"):
            for N in ((4,) if kind == "toy" else (4, 5)) if quick else (4, 5, 6, 7):
                for limit in (3, 6):
                    if kind in ("rawfixed", "toy") and limit != 3:
                        continue
                    add(f"total/{kind}/{path}/N{N}/L{limit}", "total", dict(kind=kind, N=N, cuts=2, path=path, limit=limit), cost=4**N)
        for N in (3, 5) if quick else (3, 5, 7):
            add(f"oneshot/{kind}/N{N}", "oneshot", dict(kind=kind, N=N), cost=3**N)
    for path in ("copy", "buf"):
        for N in (3,) if quick else (3, 4, 5):
            add(f"total/lenfile/{path}/N{N}", "total", dict(kind="lenfile", N=N, cuts=2, path=path, limit=3), cost=5**N)
    add("oneshot/lenfile/N4", "oneshot", dict(kind="lenfile", N=4), cost=5**4)
    for N in (2, 3) if quick else (3, 4, 5):
        add(f"total/json/copy/N{N}", "total", dict(kind="json", N=N, cuts=1 if quick else 2, path="copy", limit=3), cost=9**N)
        add(f"total/jsonl/copy/N{N}", "total", dict(kind="jsonl", N=N, cuts=1 if quick else 2, path="copy", limit=3), cost=9**N)
    add("oneshot/json/N3", "oneshot", dict(kind="json", N=3), cost=9**3)
    for target, modes in (("json", ("oneshot", "copy")), ("json-lines", ("oneshot", "copy")), ("json-debug", ("oneshot", "copy")), ("json-lines-debug", ("oneshot", "copy")), ("pickle", ("oneshot",)), ("zlib", ("oneshot", "copy", "buf")), ("bz2", ("oneshot", "copy", "buf")), ("base64", ("oneshot", "copy", "buf"))):
        for mode in modes:
            add(f"mapping/{target}/{mode}", "mapping", dict(target=target, mode=mode), cost=5)
            out[-1]["stop_on_first"] = False  # report every unmapped exception class, not only the first
    return out
