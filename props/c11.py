"""C11 - A timeout is a budget for the whole blocking operation.

Time is a solver variable: every selector wait and every lock wait advances a virtual clock by a symbolic number of
ticks e (0 <= e <= wait asked; "not ready"/"not acquired" only after the full wait); code between waits costs 0.

For a call with finite budget T (ticks):
  (a) virtual time elapsed between call and return/raise <= T;
  (b) TimeoutError only when the whole budget is gone (elapsed == T): the operation never gives up early;
  (c) T == 0 never waits: no select() with a positive wait, no blocking lock acquisition;
  (d) iter_received_packets(timeout=T): the sum over all packets <= T.
Scenarios: raw _retry through transport.recv/send; send_all / send_all_from_iterable (sendmsg and join variants);
StreamEndpoint.recv_packet with a drip-fed frame (both receive paths); the real TCPNetworkClient
(send_packet / recv_packet / iter_received_packets) with a contended lock.
"""

from __future__ import annotations

import math

import easynetwork.clients.tcp as tcp_mod
from easynetwork.clients.tcp import TCPNetworkClient
from easynetwork.lowlevel import constants
from easynetwork.lowlevel.api_sync.endpoints.stream import StreamEndpoint
from easynetwork.lowlevel.api_sync.transports.socket import SocketStreamTransport
from easynetwork.protocol import BufferedStreamProtocol, StreamProtocol
from easynetwork.serializers.abc import BufferedIncrementalPacketSerializer

from sx.engine import Outcome

from . import streamlib as L
from .c04 import ChunkSerializer
from .syncenv import INF, Env, FakeSocket, Fuel, StubSelector, patched_clock

NONTRIVIAL_RULE = "the operation had to wait at least once (selector or lock), or timed out"
STUBS = [
    "FakeSocket / StubSelector / VirtualClock (props/syncenv.py) with the contracts listed there",
    "StubLock: threading.Lock look-alike; a contended blocking acquire returns after l <= timeout ticks (failure only after the full timeout)",
    "TCPNetworkClient is built on the FakeSocket with its transport's selector_factory and its two locks replaced by the stubs (environment injection only)",
    "UDPNetworkClient likewise on FakeDatagramSocket (FIFO of whole datagrams; would-block results and selector waits are solver variables; the datagram may also never arrive)",
]
ASSUMPTIONS = [
    "processing time between waits is 0 ticks ('plus bounded processing time' in the statement is modelled as zero, so the bounds are exact)",
    "time is counted in integer ticks (exact arithmetic); IEEE rounding of real clocks is outside",
    "at most K would-block results per call",
]
BOUNDS = {"quick": "T in 0..3 ticks, retry_interval in {1, 2, inf}, <= 2 would-blocks per call, frames of <= 3 bytes drip-fed", "thorough": "T up to 5, <= 3 would-blocks"}
OUTSIDE = "real clocks and OS scheduling latency, SSLStreamTransport (OpenSSL), more would-blocks per call than the bound in the SX shards (the KS shard removes that bound for _retry / send_all / the sendmsg loop only)"


class StubLock:
    def __init__(self, env: Env, contended: bool):
        self.env = env
        self.contended = contended
        self.held = False
        self.blocking_acquires = 0
        self.bad_release = False

    def acquire(self, blocking=True, timeout=-1):
        env = self.env
        if not blocking:
            if self.contended:
                return False
            self.held = True
            return True
        self.blocking_acquires += 1
        env.tick()
        if not self.contended:
            self.held = True
            return True
        S = env.S
        if timeout is None or timeout < 0:
            wait = S.int(0, env.elapsed_max, "lk")
            env.now = env.now + wait
            self.held = True
            return True
        got = S.bool("lockok")
        if got:
            wait = S.int(0, env.elapsed_max, "lk")
            S.assume(wait <= timeout)
        else:
            wait = timeout
        env.now = env.now + wait
        if got:
            self.held = True
        return got

    def release(self):
        if not self.held:
            self.bad_release = True
        self.held = False

    def __enter__(self):
        self.acquire()
        return self

    def __exit__(self, *a):
        self.release()

    def locked(self):
        return self.held or self.contended


class _LockBox:
    def __init__(self, lock):
        self._lock = lock

    def get(self):
        return self._lock


def _verdict(env, T, outcome, start, stub_lock=None, extra_ok=True):
    elapsed = env.now - start
    ok = extra_ok
    if outcome == "spins" or outcome.startswith("raised:"):
        ok = False
    if T != INF:
        if not (elapsed <= T):
            ok = False
        if outcome == "timeout" and not (elapsed == T):
            ok = False
        if T == 0 and (env.positive_wait_selects > 0 or (stub_lock is not None and stub_lock.blocking_acquires > 0 and stub_lock.contended)):
            ok = False
    if stub_lock is not None and stub_lock.bad_release:
        ok = False
    tags = []
    if env.selects or (stub_lock is not None and stub_lock.blocking_acquires):
        tags.append("waited")
    if outcome == "timeout":
        tags.append("timed-out")
    return ok, elapsed, tuple(tags)


def _run(fn):
    try:
        fn()
        return "returned"
    except Fuel:
        return "spins"
    except TimeoutError:
        return "timeout"
    except ConnectionAbortedError:
        return "eof"
    except Exception as e:  # noqa: BLE001
        return "raised:" + type(e).__name__


def send_budget(lens: list, T: int, interval, mode: str = "sendmsg", max_eagain: int = 2):
    def scenario(S):
        chunks = [S.bytes(n, f"c{i}_") for i, n in enumerate(lens)]
        total = sum(lens)
        expected = b""
        for c in chunks:
            expected = expected + c
        env = Env(S, fuel=3 * (total + max_eagain) + 8, max_eagain=max_eagain, cap=max(total, 1), elapsed_max=T + 1 if T != INF else 3)
        sock = FakeSocket(env)
        saved_iov = constants.SC_IOV_MAX
        try:
            if mode == "join":
                constants.SC_IOV_MAX = 0
            tr = SocketStreamTransport(sock, interval, selector_factory=lambda: StubSelector(env))
            with patched_clock(env):
                if mode == "send_all":
                    outcome = _run(lambda: tr.send_all(expected, T))
                else:
                    outcome = _run(lambda: tr.send_all_from_iterable(iter(chunks), T))
            wire = sock.sent()
        finally:
            constants.SC_IOV_MAX = saved_iov
            sock.really_close()
        good_bytes = (wire == expected) if outcome == "returned" else (expected[: len(wire)] == wire)
        ok, elapsed, tags = _verdict(env, T, outcome, 0, extra_ok=good_bytes)
        return Outcome(ok=ok, skeleton=(outcome, elapsed, len(wire)), tags=tags, detail={"outcome": outcome, "elapsed": elapsed, "T": T, "selects": env.selects, "wire": wire, "expected": expected})

    return scenario


def recv_budget(frame: int, T: int, interval, path: str, bufsize: int = 2, max_eagain: int = 2, eof: bool = False, hidden: bool = False):
    """StreamEndpoint.recv_packet(timeout=T) with a frame of `frame` symbolic bytes + LF that the kernel hands out in pieces.
    hidden=True: the selector never reports the socket readable although a retried read succeeds (the situation retry_interval
    is documented for): with a finite retry_interval the call must still complete - after at most one interval per would-block."""

    def scenario(S):
        payload = S.bytes(frame, "p")
        S.assume(payload.find(b"\n") < 0)
        if frame:
            S.assume(payload[0] != L.MARK)
        complete = S.bool("complete")  # does the terminator ever arrive?
        if T == INF:
            S.assume(complete)  # without a deadline an incomplete frame legitimately waits forever
        incoming = payload + b"\n" if complete else payload
        env = Env(S, fuel=3 * (frame + 1 + max_eagain) + 8, max_eagain=max_eagain, cap=max(frame + 1, 1), elapsed_max=(T if T != INF else 3) + 1)
        env.hidden_ready = hidden
        sock = FakeSocket(env, incoming=incoming, eof_after=eof)
        try:
            tr = SocketStreamTransport(sock, interval, selector_factory=lambda: StubSelector(env))
            ser = L.RawSep(b"\n", limit=frame + 4)
            proto = BufferedStreamProtocol(ser) if path == "buf" else StreamProtocol(ser)
            ep = StreamEndpoint(tr, proto, max_recv_size=bufsize)
            got = []
            with patched_clock(env):
                outcome = _run(lambda: got.append(ep.recv_packet(timeout=T)))
        finally:
            sock.really_close()
        extra = True
        if outcome == "returned":
            extra = complete and got[0] == payload
        if outcome == "eof":
            extra = eof and not complete
        ok, elapsed, tags = _verdict(env, T, outcome, 0, extra_ok=extra)
        if hidden and complete and interval != INF and (T == INF or T > interval * max_eagain) and outcome != "returned":
            ok = False  # every would-block costs at most one retry interval: the packet must have been delivered
        return Outcome(ok=ok, skeleton=(outcome, elapsed), tags=tags, detail={"outcome": outcome, "elapsed": elapsed, "T": T, "selects": env.selects, "complete": complete})

    return scenario


class ScratchLine(BufferedIncrementalPacketSerializer):
    """LF-framed packets; the buffered variant treats its buffer as scratch space that is refilled from offset 0 on every read (what the
    compressor wrappers and the file-based serializers do): a read that fills the whole buffer is the normal case here."""

    __slots__ = ()

    def serialize(self, packet):
        return bytes(packet)

    def deserialize(self, data):
        return bytes(data)

    def incremental_serialize(self, packet):
        yield bytes(packet) + b"\n"

    def incremental_deserialize(self):
        acc = b""
        while True:
            acc = acc + (yield)
            i = acc.find(b"\n")
            if i >= 0:
                return acc[:i], acc[i + 1 :]

    def create_deserializer_buffer(self, sizehint):
        return bytearray(sizehint)

    def buffered_incremental_deserialize(self, buffer):
        acc = b""
        while True:
            n = yield 0
            acc = acc + bytes(memoryview(buffer)[:n])
            i = acc.find(b"\n")
            if i >= 0:
                return acc[:i], acc[i + 1 :]


def recv_budget_scratch(frame: int, T: int, interval, bufsize: int = 1, max_eagain: int = 2):
    """recv_budget on the buffer-filling path with a serializer whose receive buffer is scratch space refilled from offset 0
    (ScratchLine) and as small as the reads: every read fills the whole buffer.  Same oracle: the call ends within T."""

    def scenario(S):
        payload = S.bytes(frame, "p")
        S.assume(payload.find(b"\n") < 0)
        complete = S.bool("complete")
        incoming = payload + b"\n" if complete else payload
        env = Env(S, fuel=3 * (frame + 1 + max_eagain) + 8, max_eagain=max_eagain, cap=bufsize, elapsed_max=T + 1)
        sock = FakeSocket(env, incoming=incoming, eof_after=False)
        try:
            tr = SocketStreamTransport(sock, interval, selector_factory=lambda: StubSelector(env))
            ep = StreamEndpoint(tr, BufferedStreamProtocol(ScratchLine()), max_recv_size=bufsize)
            got = []
            with patched_clock(env):
                outcome = _run(lambda: got.append(ep.recv_packet(timeout=T)))
        finally:
            sock.really_close()
        extra = True
        if outcome == "returned":
            extra = complete and got[0] == payload
        ok, elapsed, tags = _verdict(env, T, outcome, 0, extra_ok=extra)
        return Outcome(ok=ok, skeleton=(outcome, elapsed), tags=tags, detail={"outcome": outcome, "elapsed": elapsed, "T": T, "selects": env.selects, "complete": complete})

    return scenario


def client_op(op: str, T: int, interval, frame: int = 2, path: str = "copy", max_eagain: int = 1, packets: int = 1):
    """The real TCPNetworkClient over the stubs. op: recv | send | iter"""

    def scenario(S):
        env = Env(S, fuel=40, max_eagain=max_eagain, cap=8, elapsed_max=(T if T != INF else 2) + 1)
        payloads = []
        incoming = b""
        for i in range(packets):
            p = S.bytes(frame, f"p{i}_")
            S.assume(p.find(b"\n") < 0)
            S.assume(p[0] != L.MARK)
            payloads.append(p)
            incoming = incoming + p + b"\n"
        contended = S.bool("contended")
        lock = StubLock(env, contended)
        sock = FakeSocket(env, incoming=incoming if op != "send" else b"", eof_after=False)
        saved = tcp_mod.SocketStreamTransport
        client = None
        try:
            tcp_mod.SocketStreamTransport = lambda s, retry_interval: saved(s, retry_interval, selector_factory=lambda: StubSelector(env))
            ser = L.RawSep(b"\n", limit=frame + 4)
            proto = BufferedStreamProtocol(ser) if path == "buf" else StreamProtocol(ser)
            client = TCPNetworkClient(sock, proto, retry_interval=interval, max_recv_size=2)
            client._TCPNetworkClient__receive_lock = _LockBox(lock)
            client._TCPNetworkClient__send_lock = _LockBox(lock)
            got = []
            with patched_clock(env):
                if op == "recv":
                    outcome = _run(lambda: got.append(client.recv_packet(timeout=T)))
                elif op == "send":
                    outcome = _run(lambda: client.send_packet(payloads[0], timeout=T))
                else:

                    def it():
                        for pkt in client.iter_received_packets(timeout=T):
                            got.append(pkt)

                    outcome = _run(it)
            wire = sock.sent()
        finally:
            tcp_mod.SocketStreamTransport = saved
            lock.contended = False
            sock.really_close()
        extra = True
        if op == "recv" and outcome == "returned":
            extra = got[0] == payloads[0]
        if op == "send":
            want = payloads[0] + b"\n"
            extra = (wire == want) if outcome == "returned" else (want[: len(wire)] == wire)
        if op == "iter":
            extra = outcome == "returned" and len(got) <= packets
            if extra:
                for g, p in zip(got, payloads):
                    if not (g == p):
                        extra = False
        ok, elapsed, tags = _verdict(env, T, outcome, 0, stub_lock=lock, extra_ok=extra)
        if op == "iter" and len(got) < packets:
            # the iterator stops on TimeoutError: that is only legitimate when the budget is gone
            if T != INF and not (elapsed == T):
                ok = False
            tags = tags + ("timed-out",)
        return Outcome(ok=ok, skeleton=(outcome, elapsed, len(got)), tags=tags, detail={"outcome": outcome, "elapsed": elapsed, "T": T, "selects": env.selects, "contended": contended, "received": len(got)})

    return scenario


def udp_client_op(op: str, T: int, interval, max_eagain: int = 1, packets: int = 1):
    """The real UDPNetworkClient (SocketDatagramTransport._retry, DatagramEndpoint, lock_with_timeout, iterator) over a scripted
    SOCK_DGRAM socket object. op: recv | send | iter.  For recv the datagram may also never arrive (finite T only)."""
    import easynetwork.clients.udp as udp_mod
    from easynetwork.protocol import DatagramProtocol

    from .syncenv import FakeDatagramSocket

    def scenario(S):
        env = Env(S, fuel=40, max_eagain=max_eagain, cap=8, elapsed_max=(T if T != INF else 2) + 1)
        payloads = []
        for i in range(packets):
            p = S.bytes(1, f"p{i}_")
            S.assume(p.find(b"\n") < 0)
            S.assume(p[0] != L.MARK)
            payloads.append(p)
        contended = S.bool("contended")
        lock = StubLock(env, contended)
        sock = FakeDatagramSocket(env)
        arrives = True
        if op == "recv" and T != INF:
            arrives = S.bool("arrives")
        if op != "send" and arrives:
            for p in payloads:
                sock.queue.append(p)  # one-shot mode: a datagram carries the bare payload
        saved = udp_mod.SocketDatagramTransport
        try:
            udp_mod.SocketDatagramTransport = lambda s, retry_interval, **kw: saved(s, retry_interval, selector_factory=lambda: StubSelector(env), **kw)
            client = udp_mod.UDPNetworkClient(sock, DatagramProtocol(L.RawSep(b"\n", limit=8)), retry_interval=interval)
            client._UDPNetworkClient__receive_lock = _LockBox(lock)
            client._UDPNetworkClient__send_lock = _LockBox(lock)
            got = []
            with patched_clock(env):
                if op == "recv":
                    outcome = _run(lambda: got.append(client.recv_packet(timeout=T)))
                elif op == "send":
                    outcome = _run(lambda: client.send_packet(payloads[0], timeout=T))
                else:

                    def it():
                        for pkt in client.iter_received_packets(timeout=T):
                            got.append(pkt)

                    outcome = _run(it)
            wire = list(sock.queue)
        finally:
            udp_mod.SocketDatagramTransport = saved
            lock.contended = False
            sock.really_close()
        extra = True
        if op == "recv":
            if outcome == "returned":
                extra = arrives and got[0] == payloads[0]
            elif not arrives:
                extra = outcome == "timeout"
        if op == "send":
            extra = (len(wire) == 1 and wire[0] == payloads[0]) if outcome == "returned" else (len(wire) == 0)
        if op == "iter":
            extra = outcome == "returned" and len(got) <= packets
            if extra:
                for g, p in zip(got, payloads):
                    if not (g == p):
                        extra = False
        ok, elapsed, tags = _verdict(env, T, outcome, 0, stub_lock=lock, extra_ok=extra)
        if op == "iter" and len(got) < packets:
            if T != INF and not (elapsed == T):
                ok = False
            tags = tags + ("timed-out",)
        return Outcome(ok=ok, skeleton=(outcome, elapsed, len(got)), tags=tags, detail={"outcome": outcome, "elapsed": elapsed, "T": T, "selects": env.selects, "contended": contended, "received": len(got), "arrives": arrives})

    return scenario


def ks_replay(kernel: str, T, R, log: list):
    """Concrete replay of a failed KS obligation against the REAL function: the iteration found by the solver is played from a
    fresh start (nothing waited yet, so the loop-head state is the initial one), then the environment behaves adversarially within
    its contract (waits as long as allowed, then times out).  Oracle of C11: elapsed <= T, TimeoutError => elapsed == T."""
    from easynetwork.lowlevel import _utils
    from easynetwork.lowlevel.api_sync.transports import base_selector
    from easynetwork.lowlevel.api_sync.transports.abc import StreamWriteTransport

    interval = math.inf if R == "inf" else R

    def scenario(S):
        clock = {"now": 0.0}
        steps = [list(x) for x in log]

        class FakeTime:
            @staticmethod
            def perf_counter():
                return clock["now"]

        class Sel:
            def __enter__(self):
                return self

            def __exit__(self, *a):
                return None

            def register(self, *a):
                return None

            def select(self, timeout=None):
                for st in steps:
                    if st[0] == "sel":
                        steps.remove(st)
                        clock["now"] += st[1]
                        return [1] if st[2] else []
                # adversarial default: not ready until the full wait has elapsed
                if timeout is None:
                    return [1]
                clock["now"] += timeout
                return []

        class Tr(base_selector.SelectorBaseTransport, StreamWriteTransport):
            def close(self):
                pass

            def is_closed(self):
                return False

            @property
            def extra_attributes(self):
                return {}

            def send(self, data, timeout):
                for st in steps:
                    if st[0] == "call":
                        steps.remove(st)
                        clock["now"] += st[1]
                        if st[3]:
                            return max(1, min(len(data), int(st[2]) or 1))
                        raise TimeoutError("scripted")
                clock["now"] += timeout
                raise TimeoutError("adversarial default")

        class TrMsg(Tr):
            def _retry(self, callback, timeout):
                for st in steps:
                    if st[0] == "call":
                        steps.remove(st)
                        clock["now"] += st[1]
                        if st[3]:
                            return int(st[2]), timeout - st[1]
                        raise TimeoutError("scripted")
                clock["now"] += timeout
                raise TimeoutError("adversarial default")

        def cb():
            for st in steps:
                if st[0] == "cb":
                    steps.remove(st)
                    if st[1] == 1:
                        raise base_selector.WouldBlockOnRead(5)
                    if st[1] == 2:
                        raise base_selector.WouldBlockOnWrite(5)
                    return "result"
            raise base_selector.WouldBlockOnRead(5)  # adversarial default: never ready

        saved = _utils.time
        _utils.time = FakeTime
        returned = None
        try:
            try:
                if kernel == "retry":
                    returned = Tr(interval, selector_factory=Sel)._retry(cb, T)[1]
                    outcome = "returned"
                elif kernel == "send_all":
                    Tr(interval, selector_factory=Sel).send_all(b"xxxx", T)
                    outcome = "returned"
                else:
                    from easynetwork.lowlevel.api_sync.transports.socket import SocketStreamTransport

                    import socket as _sk

                    obj = TrMsg(interval, selector_factory=Sel)
                    rs = _sk.socket(_sk.AF_INET, _sk.SOCK_STREAM)  # never used for I/O (_retry is scripted); only type-checked
                    try:
                        obj._SocketStreamTransport__socket = rs
                        SocketStreamTransport.send_all_from_iterable(obj, [b"ab", b"c"], T)
                    finally:
                        rs.close()
                    outcome = "returned"
            except TimeoutError:
                outcome = "timeout"
            except Exception as e:  # noqa: BLE001
                outcome = "raised:" + type(e).__name__ + ":" + str(e)[:80]
        finally:
            _utils.time = saved
        elapsed = clock["now"]
        eps = 1e-9
        ok = elapsed <= T + eps
        if outcome == "timeout" and abs(elapsed - T) > eps:
            ok = False
        if outcome == "returned" and returned is not None and abs(returned - (T - elapsed)) > eps:
            ok = False
        if outcome.startswith("raised:"):
            ok = None  # replay harness could not drive the function: inconclusive
            return Outcome(ok=True, skeleton=("inconclusive",), tags=(), detail={"inconclusive": outcome})
        return Outcome(ok=ok, skeleton=(outcome,), tags=("ks-replay",), detail={"kernel": kernel, "T": T, "elapsed": elapsed, "outcome": outcome, "returned_timeout": returned, "script": log})

    return scenario


def shards(tier: str):
    out = []
    quick = tier == "quick"
    B = 150 if quick else 1200

    def add(name, fn, params, cost):
        out.append({"name": name, "scenario": f"props.c11:{fn}", "params": params, "budget": B, "cost": cost, "per_path_timeout": 20})

    Ts = (0, 1, 3) if quick else (0, 1, 2, 3, 5)
    intervals = (1, INF) if quick else (1, 2, INF)
    for T in Ts:
        for iv in intervals:
            ivn = "inf" if iv == INF else iv
            for lens, mode in (([2], "send_all"), ([1, 1], "sendmsg"), ([2, 0, 1], "sendmsg"), ([1, 1], "join")):
                if quick and iv == 1 and mode in ("join",):
                    continue
                add(f"send/{mode}/{'-'.join(map(str, lens))}/T{T}/i{ivn}", "send_budget", dict(lens=lens, T=T, interval=iv, mode=mode, max_eagain=2), cost=10 * (T + 1) ** 2)
            for path in ("copy", "buf"):
                for frame in (1, 2) if quick else (1, 2, 3):
                    add(f"recv/{path}/F{frame}/T{T}/i{ivn}", "recv_budget", dict(frame=frame, T=T, interval=iv, path=path, bufsize=1 if frame == 1 else 2, max_eagain=2), cost=10 * (T + 1) ** 2 * frame)
            if T != 0:
                add(f"recv-scratch/F2/T{T}/i{ivn}", "recv_budget_scratch", dict(frame=2, T=T, interval=iv, bufsize=1, max_eagain=2), cost=10 * (T + 1) ** 2 * 2)
            if iv != INF and T != 0:
                add(f"recv-hidden/copy/F1/T{T}/i{ivn}", "recv_budget", dict(frame=1, T=T, interval=iv, path="copy", bufsize=2, max_eagain=1, hidden=True), cost=10)
            add(f"recv-eof/copy/F1/T{T}/i{ivn}", "recv_budget", dict(frame=1, T=T, interval=iv, path="copy", bufsize=2, max_eagain=1, eof=True), cost=10)
            for op in ("recv", "send", "iter"):
                add(f"client/{op}/T{T}/i{ivn}", "client_op", dict(op=op, T=T, interval=iv, frame=1, path="copy", max_eagain=1, packets=2 if op == "iter" else 1), cost=20 * (T + 1) ** 2)
            for op in ("recv", "send", "iter"):
                add(f"udpclient/{op}/T{T}/i{ivn}", "udp_client_op", dict(op=op, T=T, interval=iv, max_eagain=1, packets=2 if op == "iter" else 1), cost=20 * (T + 1) ** 2)
            if not quick:
                add(f"client/recv-buf/T{T}/i{ivn}", "client_op", dict(op="recv", T=T, interval=iv, frame=2, path="buf", max_eagain=2), cost=20 * (T + 1) ** 2)
    # no deadline at all, finite retry interval, readiness never reported: only the retry interval gets the call through
    for path in ("copy", "buf"):
        add(f"recv-hidden/{path}/F1/Tinf/i1", "recv_budget", dict(frame=1, T=INF, interval=1, path=path, bufsize=2, max_eagain=2, hidden=True), cost=10)
    # KS engine: loop-head induction for the timeout book-keeping loops (unbounded number of wake-ups / partial writes)
    out.append({"name": "ks/retry-send_all-sendmsg/loop-head-induction", "ks": "ks.retry:run_all", "scenario": "ks.retry:run_all", "params": {}, "budget": 120, "cost": 1})
    return out
