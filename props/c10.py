"""C10 - Cancelling or timing out a receive never loses data.

Scenario proto: the real StreamReaderBufferedProtocol + AsyncioTransportStreamSocketAdapter on the deterministic loop with
real asyncio tasks.  A solver-chosen sequence of K events from
    step      one event-loop iteration
    arrive k  the "kernel" delivers the next k (symbolic, 1..3) stream bytes: get_buffer / write / buffer_updated
    cancel    task.cancel() on the pending receive  (or: the enclosing move_on_after scope expires)
is applied while receive tasks (recv(bufsize) or recv_into(buffer), symbolic sizes 1..3) are (re)started whenever the
previous one ended.  Afterwards the rest of the stream and EOF are delivered and receives continue until drained.
Asserted: the concatenation of everything returned by successful receives == the stream (nothing lost, duplicated or
reordered), no receive raises, the drain finishes within the step budget.
"""

from __future__ import annotations

import asyncio

from easynetwork.lowlevel.api_async.backend._asyncio.stream.socket import AsyncioTransportStreamSocketAdapter, StreamReaderBufferedProtocol

from sx.engine import Outcome

from .asyncenv import FakeAsyncioTransport, backend, loop_context

NONTRIVIAL_RULE = "a cancellation landed on a pending receive, or data arrived while a receive was pending"
STUBS = [
    "DetLoop (virtual clock, no selector) with real asyncio tasks/futures",
    "FakeAsyncioTransport: asyncio.Transport contract (get_buffer/buffer_updated with 1..len(buffer) bytes unless reading is paused; connection_lost at most once)",
    "variant m1024: StreamReaderBufferedProtocol.max_size = 1024 (class attribute) makes the read high-water mark 0, so pause_reading/resume_reading are exercised by a few bytes",
]
ASSUMPTIONS = ["the event loop calls get_buffer()/buffer_updated() back-to-back (as selector_events does) and never while reading is paused"]
BOUNDS = {"quick": "stream of 6 distinct bytes, K <= 4 events before the drain (7 with a fixed 4-event prefix in the tls r2 shards), <= 2 cancellations, receive sizes 1..3; blocking layers: 2 frames, <= 3 timed receives with T in {0, 1} ticks, <= 2 would-blocks, reads of 1 byte", "thorough": "K <= 6, stream 8"}
OUTSIDE = "uvloop/trio backends, the real selector transport; for TLS only the schedule around cancelled receives is explored (OpenSSL runs concretely; byte-transparency of TLS is C08, not claimed)"


def _make_proto(maxsize):
    class Proto(StreamReaderBufferedProtocol):
        __slots__ = ()
        max_size = maxsize

    return Proto


def proto(N: int, K: int, kind: str, maxsize: int = 0, cancels: int = 2, via: str = "cancel", prefix: list = ()):
    """kind: recv | recv_into | mixed ;  via: cancel (task.cancel) | scope (move_on_after deadline expires)"""

    def scenario(S):
        # distinct concrete bytes: loss, duplication and reordering are all visible; what the solver varies is the event
        # order, the arrival sizes and the receive sizes (the protocol's offset arithmetic stays symbolic until it indexes)
        stream = bytes(range(65, 65 + N))
        with loop_context() as loop:
            be = backend()
            p = (_make_proto(maxsize) if maxsize else StreamReaderBufferedProtocol)(loop=loop)
            tr = FakeAsyncioTransport(loop, p)
            p.connection_made(tr)
            adapter = AsyncioTransportStreamSocketAdapter(be, tr, p)
            st = {"delivered": 0, "got": [], "task": None, "cancels": 0, "errors": [], "pending_arrivals": 0, "cancel_on_pending": 0, "eof": False}

            async def recv_once(use_into, size):
                if via == "scope":
                    with be.move_on_after(10):
                        await _do(use_into, size)
                else:
                    await _do(use_into, size)

            async def _do(use_into, size):
                if use_into:
                    buf = bytearray(size)
                    n = await adapter.recv_into(buf)
                    st["got"].append(bytes(buf[:n]))
                else:
                    st["got"].append(await adapter.recv(size))

            def total_got():
                n = 0
                for g in st["got"]:
                    n += len(g)
                return n

            def harvest():
                t = st["task"]
                if t is not None and t.done():
                    st["task"] = None
                    if not t.cancelled() and t.exception() is not None:
                        st["errors"].append(repr(t.exception()))

            def ensure_task(size, use_into):
                harvest()
                if st["task"] is None:
                    st["task"] = loop.create_task(recv_once(use_into, size))

            def arrive(k):
                if tr.reading_paused or st["eof"] or st["delivered"] >= N:
                    return
                buf = p.get_buffer(-1)
                n = N - st["delivered"]
                if k < n:
                    n = k
                if len(buf) < n:
                    n = len(buf)
                if n <= 0:
                    return
                buf[:n] = stream[st["delivered"] : st["delivered"] + n]
                st["delivered"] += n
                if st["task"] is not None and not st["task"].done():
                    st["pending_arrivals"] += 1
                p.buffer_updated(n)

            for i in range(K):
                size = S.int(1, 3, f"size{i}")
                use_into = (kind == "recv_into") or (kind == "mixed" and S.bool(f"into{i}"))
                ensure_task(size, use_into)
                c = prefix[i] if i < len(prefix) else S.choice(3, f"ev{i}")  # prefix: shard on the first events
                if c == 0:
                    loop.step()
                elif c == 1:
                    arrive(S.int(1, 3, f"k{i}"))
                else:
                    if st["cancels"] < cancels and st["task"] is not None and not st["task"].done():
                        st["cancels"] += 1
                        st["cancel_on_pending"] += 1
                        if via == "scope":
                            loop.advance(11)  # the scope's deadline passes: its timer fires on the next iteration
                        else:
                            st["task"].cancel()
                    else:
                        loop.step()
            # ---- drain: deliver the rest, then EOF, and keep receiving ---------------------------
            budget = 6 * N + 20
            steps = 0
            while steps < budget:
                steps += 1
                harvest()
                if st["task"] is None:
                    if total_got() >= N and st["eof"]:
                        break
                    st["task"] = loop.create_task(recv_once(kind == "recv_into", 3))
                if st["delivered"] < N:
                    arrive(2)
                elif not st["eof"]:
                    st["eof"] = True
                    p.eof_received()
                loop.step()
            harvest()
            data = b""
            for g in st["got"]:
                data = data + g
            finished = st["task"] is None and st["eof"]
            ok = finished and not st["errors"] and data == stream
            tags = []
            if st["cancel_on_pending"]:
                tags.append("cancel-on-pending-receive")
            if st["pending_arrivals"]:
                tags.append("arrival-while-pending")
            detail = {"received": data, "stream": stream, "errors": st["errors"], "finished": finished, "loop_exceptions": [str(c.get("message")) for c in loop.exceptions]}
            return Outcome(ok=ok, skeleton=(len(data), len(st["got"]), finished, len(st["errors"])), tags=tuple(tags), detail=detail)

    return scenario


def endpoint(frames: int, K: int, path: str, bufsize: int = 16, via: str = "cancel", prefix: list = ()):
    """AsyncStreamEndpoint.recv_packet over an in-memory transport: `frames` one-byte frames + LF arrive in solver-chosen pieces
    while recv_packet tasks are cancelled at solver-chosen moments (task.cancel() or backend.timeout(0)-style scope expiry)."""
    from easynetwork.lowlevel.api_async.endpoints.stream import AsyncStreamEndpoint
    from easynetwork.protocol import BufferedStreamProtocol, StreamProtocol

    from . import streamlib as L
    from .asyncenv import MemStreamTransport

    def scenario(S):
        stream = b""
        expect = []
        for i in range(frames):
            stream += bytes([65 + i]) + b"\n"
            expect.append(bytes([65 + i]))
        N = len(stream)
        with loop_context() as loop:
            be = backend()
            tr = MemStreamTransport(be, stream, available=0, loop=loop)
            ser = L.RawSep(b"\n", limit=8)
            ep = AsyncStreamEndpoint(tr, BufferedStreamProtocol(ser) if path == "buf" else StreamProtocol(ser), max_recv_size=bufsize)
            st = {"got": [], "task": None, "errors": [], "cancels": 0, "cancel_pending": 0}

            async def recv_once():
                if via == "scope":
                    with be.move_on_after(10):
                        st["got"].append(await ep.recv_packet())
                else:
                    st["got"].append(await ep.recv_packet())

            def harvest():
                t = st["task"]
                if t is not None and t.done():
                    st["task"] = None
                    if not t.cancelled() and t.exception() is not None:
                        st["errors"].append(repr(t.exception()))

            for i in range(K):
                harvest()
                if st["task"] is None:
                    st["task"] = loop.create_task(recv_once())
                c = prefix[i] if i < len(prefix) else S.choice(3, f"ev{i}")
                if c == 0:
                    loop.step()
                elif c == 1:
                    tr.feed(S.int(1, 4, f"k{i}"))
                else:
                    if st["cancels"] < 2 and not st["task"].done():
                        st["cancels"] += 1
                        st["cancel_pending"] += 1
                        if via == "scope":
                            loop.advance(11)
                        else:
                            st["task"].cancel()
                    else:
                        loop.step()
            tr.feed(N)
            steps = 0
            while steps < 6 * frames + 20:
                steps += 1
                harvest()
                if st["task"] is None:
                    if len(st["got"]) >= frames:
                        break
                    st["task"] = loop.create_task(recv_once())
                loop.step()
            harvest()
            ok = st["task"] is None and not st["errors"] and st["got"] == expect
            tags = ("cancel-on-pending-receive",) if st["cancel_pending"] else ()
            return Outcome(ok=ok, skeleton=(len(st["got"]), len(st["errors"])), tags=tags, detail={"got": st["got"], "expected": expect, "errors": st["errors"]})

    return scenario


def aclient(frames: int, K: int, connect_delay: int = 1, prefix: list = (), exclude: list = ()):
    """The real AsyncTCPNetworkClient (lazy connection on first use) over an in-memory transport: recv_packet() tasks are
    cancelled at solver-chosen moments - including while the client is still connecting - while the peer's frames arrive in
    solver-chosen pieces; later receives must deliver every frame, in order.
    exclude=["connect_cancel"]: skip the schedules covered by the open known finding F-C10-connect (cancel during the connect)."""
    from easynetwork.clients.async_tcp import AsyncTCPNetworkClient
    from easynetwork.protocol import StreamProtocol

    from . import streamlib as L
    from .asyncenv import MemStreamTransport
    from .c12 import MemBackend

    def scenario(S):
        stream = b""
        expect = []
        for i in range(frames):
            stream += bytes([65 + i]) + b"\n"
            expect.append(bytes([65 + i]))
        with loop_context() as loop:
            holder = {}

            def factory():
                holder["tr"] = MemStreamTransport(be, stream, available=holder.get("fed", 0), loop=loop)
                return holder["tr"]

            class SlowBackend(MemBackend):
                async def create_tcp_connection(self, host, port, **kw):
                    for _ in range(connect_delay):
                        await self.coro_yield()
                    return self._factory()

            be = SlowBackend(factory)
            client = AsyncTCPNetworkClient(("host", 1), StreamProtocol(L.RawSep(b"\n", limit=8)), be)
            st = {"got": [], "task": None, "errors": [], "cancels": 0, "cancel_connecting": 0}

            async def recv_once():
                st["got"].append(await client.recv_packet())

            def harvest():
                t = st["task"]
                if t is not None and t.done():
                    st["task"] = None
                    if not t.cancelled() and t.exception() is not None:
                        st["errors"].append(repr(t.exception()))

            def feed(k):
                holder["fed"] = min(len(stream), holder.get("fed", 0) + k)
                if "tr" in holder:
                    holder["tr"].feed(k)

            for i in range(K):
                harvest()
                if st["task"] is None and not st["errors"]:
                    st["task"] = loop.create_task(recv_once())
                c = prefix[i] if i < len(prefix) else S.choice(3, f"ev{i}")
                if c == 0:
                    loop.step()
                elif c == 1:
                    feed(S.pick([1, 2, 3], f"k{i}"))
                else:
                    if st["cancels"] < 2 and st["task"] is not None and not st["task"].done():
                        if "tr" not in holder:
                            if "connect_cancel" in exclude:
                                S.assume(False)
                            st["cancel_connecting"] += 1
                        st["cancels"] += 1
                        st["task"].cancel()
                    else:
                        loop.step()
            feed(len(stream))
            for _ in range(8 * frames + 30):
                harvest()
                if st["errors"]:
                    break
                if st["task"] is None:
                    if len(st["got"]) >= frames:
                        break
                    st["task"] = loop.create_task(recv_once())
                loop.step()
            harvest()
            ok = st["task"] is None and not st["errors"] and st["got"] == expect
            tags = []
            if st["cancels"]:
                tags.append("cancel-on-pending-receive")
            if st["cancel_connecting"]:
                tags.append("cancel-while-connecting")
            t3 = loop.create_task(client.aclose())
            loop.run_until_idle(30)
            return Outcome(ok=ok, skeleton=(len(st["got"]), len(st["errors"])), tags=tuple(tags), detail={"got": st["got"], "expected": expect, "errors": st["errors"], "cancelled_while_connecting": st["cancel_connecting"]})

    return scenario


def tls(K: int, kind: str = "recv", prefix: list = (), rsize: int = 4):
    """Two REAL AsyncTLSStreamTransport objects (real ssl.SSLObject / MemoryBIO, certificate from benchmark_server/servers/certs)
    wrapped around an in-memory duplex pipe.  The server writes a 6-byte stream in solver-chosen pieces while the client's pending
    TLS receives are cancelled at solver-chosen moments; later receives must deliver exactly the rest of the stream.
    Only the schedule is symbolic here (OpenSSL is executed concretely); the assertion is about the Python glue of the TLS
    transport around a cancelled want-read."""
    import ssl

    from easynetwork.lowlevel.api_async.transports.tls import AsyncTLSStreamTransport

    from .asyncenv import PipeTransport

    CERT = "/repo/benchmark_server/servers/certs/ssl_cert.pem"
    KEY = "/repo/benchmark_server/servers/certs/ssl_key.pem"

    def scenario(S):
        stream = b"ABCDEF"
        with loop_context() as loop:
            be = backend()
            a, b = PipeTransport.pair(be, loop)
            sctx = ssl.create_default_context(ssl.Purpose.CLIENT_AUTH)
            sctx.load_cert_chain(CERT, KEY)
            cctx = ssl.create_default_context()
            cctx.check_hostname = False
            cctx.verify_mode = ssl.CERT_NONE
            ts = loop.create_task(AsyncTLSStreamTransport.wrap(a, sctx, server_side=True, handshake_timeout=1000))
            tc = loop.create_task(AsyncTLSStreamTransport.wrap(b, cctx, server_side=False, server_hostname="x", handshake_timeout=1000))
            for _ in range(200):
                loop.step()
                if ts.done() and tc.done():
                    break
            server, client = ts.result(), tc.result()
            st = {"sent": 0, "got": [], "task": None, "errors": [], "cancels": 0, "cancel_pending": 0, "wtask": None}

            async def recv_once():
                if kind == "recv_into":
                    buf = S.real_bytearray(rsize)  # OpenSSL (C code) writes into it
                    n = await client.recv_into(buf)
                    st["got"].append(bytes(buf[:n]))
                else:
                    st["got"].append(await client.recv(rsize))

            def harvest():
                t = st["task"]
                if t is not None and t.done():
                    st["task"] = None
                    if not t.cancelled() and t.exception() is not None:
                        st["errors"].append(repr(t.exception()))

            def write(k):
                if st["sent"] < len(stream) and (st["wtask"] is None or st["wtask"].done()):
                    piece = stream[st["sent"] : st["sent"] + k]
                    st["sent"] += len(piece)
                    st["wtask"] = loop.create_task(server.send_all(piece))

            def total():
                return sum(len(g) for g in st["got"])

            for i in range(K):
                harvest()
                if st["task"] is None:
                    st["task"] = loop.create_task(recv_once())
                c = prefix[i] if i < len(prefix) else S.choice(3, f"ev{i}")
                if c == 0:
                    loop.step()
                elif c == 1:
                    write(S.pick([1, 2, 3], f"k{i}"))
                else:
                    if st["cancels"] < 2 and not st["task"].done():
                        st["cancels"] += 1
                        st["cancel_pending"] += 1
                        st["task"].cancel()
                    else:
                        loop.step()
            for _ in range(200):
                harvest()
                if st["errors"]:
                    break
                if st["task"] is None:
                    if total() >= len(stream):
                        break
                    st["task"] = loop.create_task(recv_once())
                write(3)
                loop.step()
            harvest()
            if st["task"] is not None:
                st["task"].cancel()
            data = b"".join(st["got"])
            ok = data == stream and not st["errors"]
            tags = ("cancel-on-pending-receive",) if st["cancel_pending"] else ()
            for t in (server, client):
                loop.create_task(aclose_quiet(t))
            loop.run_until_idle(100)
            return Outcome(ok=ok, skeleton=(len(data), len(st["errors"])), tags=tags, detail={"received": data, "stream": stream, "errors": st["errors"]})

    return scenario


def sync_timeout(kind: str, path: str, T: int, rsize: int = 1):
    """'The same holds for blocking receives that end with TimeoutError': the real blocking receive layers
    (kind = endpoint: StreamEndpoint, receiver: StreamReceiverEndpoint, client: TCPNetworkClient.recv_packet,
    client-iter: TCPNetworkClient.iter_received_packets) over SocketStreamTransport + a scripted socket object.  The stream
    'AB\\nC\\n' is handed out in pieces of <= rsize bytes with solver-chosen would-block results; the selector lets a solver-chosen
    time pass, so that recv_packet(timeout=T) may end with TimeoutError at any point inside a frame.  After up to 3 such calls the
    remaining packets are read without a timeout.  Asserted: the packets delivered over all calls are exactly AB, C (in order,
    once) - a receive that timed out lost nothing of what it had already read."""
    import easynetwork.clients.tcp as tcp_mod
    from easynetwork.lowlevel.api_sync.endpoints.stream import StreamEndpoint, StreamReceiverEndpoint
    from easynetwork.lowlevel.api_sync.transports.socket import SocketStreamTransport
    from easynetwork.protocol import BufferedStreamProtocol, StreamProtocol

    from . import streamlib as L
    from .syncenv import INF, Env, FakeSocket, Fuel, StubSelector, patched_clock

    def scenario(S):
        stream = b"AB\nC\n"
        expect = [b"AB", b"C"]
        env = Env(S, fuel=80, max_eagain=2, cap=rsize, elapsed_max=T + 1)
        sock = FakeSocket(env, incoming=stream, eof_after=False)
        ser = L.RawSep(b"\n", limit=8)
        proto = BufferedStreamProtocol(ser) if path == "buf" else StreamProtocol(ser)
        saved = tcp_mod.SocketStreamTransport
        got = []
        timeouts = 0
        mid_frame = 0
        problem = None
        try:
            if kind in ("client", "client-iter"):
                tcp_mod.SocketStreamTransport = lambda s, retry_interval: saved(s, retry_interval, selector_factory=lambda: StubSelector(env))
                obj = tcp_mod.TCPNetworkClient(sock, proto, retry_interval=1, max_recv_size=rsize)
            else:
                tr = SocketStreamTransport(sock, 1, selector_factory=lambda: StubSelector(env))
                obj = (StreamEndpoint if kind == "endpoint" else StreamReceiverEndpoint)(tr, proto, max_recv_size=rsize)

            def one(timeout):
                if kind == "client-iter":
                    n = 0
                    for pkt in obj.iter_received_packets(timeout=timeout):
                        got.append(pkt)
                        n += 1
                        if len(got) >= len(expect):
                            break
                    if n == 0 or len(got) < len(expect):
                        raise TimeoutError  # the iterator swallows the TimeoutError and stops
                else:
                    got.append(obj.recv_packet(timeout=timeout))

            with patched_clock(env):
                try:
                    for _ in range(3):
                        if len(got) >= len(expect):
                            break
                        before = sock.rpos
                        try:
                            one(T)
                        except TimeoutError:
                            timeouts += 1
                            if sock.rpos > 0 and sock.rpos not in (3, 5):
                                mid_frame += 1
                    env.eagain_left = 0
                    env.spurious_left = 0
                    while len(got) < len(expect) and problem is None:
                        one(None)
                except Fuel:
                    problem = "receive spins / never returns although the rest of the stream is available"
                except Exception as e:  # noqa: BLE001
                    problem = "raised " + repr(e)
        finally:
            tcp_mod.SocketStreamTransport = saved
            sock.really_close()
        ok = problem is None and len(got) == len(expect)
        if ok:
            for g, e in zip(got, expect):
                if not (g == e):
                    ok = False
        tags = []
        if timeouts:
            tags.append("cancel-on-pending-receive")
        if mid_frame:
            tags.append("timeout-inside-a-frame")
        return Outcome(ok=ok, skeleton=(len(got), timeouts, problem is None), tags=tuple(tags), detail={"got": got, "expected": expect, "timeouts": timeouts, "timeouts_inside_a_frame": mid_frame, "problem": problem})

    return scenario


async def aclose_quiet(t):
    from easynetwork.lowlevel.api_async.transports.utils import aclose_forcefully

    try:
        await aclose_forcefully(t)
    except Exception:  # noqa: BLE001
        pass


def shards(tier: str):
    import itertools

    out = []
    quick = tier == "quick"
    B = 240 if quick else 1500

    def add(name, params, cost):
        out.append({"name": name, "scenario": "props.c10:proto", "params": params, "budget": B, "cost": cost, "per_path_timeout": 30})

    N = 6 if quick else 8
    for kind in ("recv", "recv_into", "mixed"):
        for via in ("cancel", "scope"):
            for maxsize in (0, 1024):
                add(f"proto/{kind}/K3/{via}/m{maxsize}", dict(N=N, K=3, kind=kind, maxsize=maxsize, via=via), cost=9**3)
    # deeper schedules, sharded on the first events
    deep = [("mixed", "cancel", 0)] if quick else [(k, v, m) for k in ("recv", "recv_into", "mixed") for v in ("cancel", "scope") for m in (0, 1024)]
    K = 4 if quick else 5
    for kind, via, maxsize in deep:
        for pre in itertools.product(range(3), repeat=2 if quick else 3):
            add(f"proto/{kind}/K{K}/{via}/m{maxsize}/pre{''.join(map(str, pre))}", dict(N=N, K=K, kind=kind, maxsize=maxsize, via=via, prefix=list(pre)), cost=9 ** (K - len(pre)) * 3)
    # the real AsyncTCPNetworkClient: receives cancelled while connecting / while waiting for data
    for pre in range(2):  # (a first event 'cancel' always lands during the connect: that is the open known finding F-C10-connect)
        out.append({"name": f"aclient/K{4 if quick else 6}/pre{pre}", "scenario": "props.c10:aclient", "params": dict(frames=2, K=4 if quick else 6, prefix=[pre]), "budget": B, "cost": 300, "per_path_timeout": 30, "accepts_exclude": True})
    # the TLS transport's Python glue around a cancelled want-read, with real ssl objects on both sides of an in-memory pipe
    for kind in ("recv", "recv_into"):
        for pre in range(3):
            out.append({"name": f"tls/{kind}/K{4 if quick else 6}/pre{pre}", "scenario": "props.c10:tls", "params": dict(K=4 if quick else 6, kind=kind, prefix=[pre]), "budget": B, "cost": 400, "per_path_timeout": 60})
            if pre == 1:  # receive size smaller than a TLS record: decrypted bytes stay in stock inside the SSL object
                Kr = 7 if quick else 9  # the first record travels through the pipe during the fixed prefix (write, 3 iterations)
                out.append({"name": f"tls/{kind}/r2/K{Kr}/pre1000", "scenario": "props.c10:tls", "params": dict(K=Kr, kind=kind, prefix=[1, 0, 0, 0], rsize=2), "budget": B, "cost": 400, "per_path_timeout": 60})
    # "... or a request handler's yielded timeout": the stream server's request receivers (scenario shared with C15)
    for path in ("copy", "buf"):
        for pre in range(3):
            out.append({"name": f"server/ginf-t0/{path}/pre{pre}", "scenario": "props.c15:serve", "params": dict(frames=3, K=4 if quick else 6, path=path, per_gen=0, timeout=0, prefix=[pre]), "budget": B, "cost": 300, "per_path_timeout": 30})
    # "The same holds for blocking receives that end with TimeoutError"
    for kind in ("endpoint", "receiver", "client", "client-iter"):
        for path in ("copy", "buf"):
            for T in (0, 1) if quick else (0, 1, 2):
                out.append({"name": f"sync-timeout/{kind}/{path}/T{T}", "scenario": "props.c10:sync_timeout", "params": dict(kind=kind, path=path, T=T, rsize=1 if quick else 2), "budget": B, "cost": 60 * (T + 1), "per_path_timeout": 30})
    for path in ("copy", "buf"):
        for via in ("cancel", "scope"):
            for pre in itertools.product(range(3), repeat=1):
                out.append({"name": f"endpoint/{path}/{via}/K{4 if quick else 5}/pre{pre[0]}", "scenario": "props.c10:endpoint", "params": dict(frames=3, K=4 if quick else 5, path=path, via=via, prefix=list(pre)), "budget": B, "cost": 200, "per_path_timeout": 30})
    return out
