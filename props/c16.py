"""C16 - Datagram server: per-client FIFO, one active handler, nothing dropped.

Real code: AsyncDatagramServer.serve / __client_coroutine / inner loop / task-done respawn, _ClientData, the real
DatagramListenerProtocol (fed directly), build_lowlevel_datagram_server_handler, on the deterministic loop with real task groups.

Two client addresses A and B send datagrams (each well-formed or malformed by solver choice).  A solver-chosen sequence of
events (A's next datagram arrives | B's next datagram arrives | one loop iteration) is applied, then everything left is
delivered and the loop runs until idle.  Handler shapes (shard parameters): the generator returns after k requests, suspends
s loop iterations per request, yields a timeout (None / 0), or (for A) blocks forever.
Asserted: per address, requests and parse errors reach that address's handler exactly once and in arrival order; never two
generators active for one address; every datagram is handled within the step budget (by the running or a fresh generator);
a handler of A blocked for the whole run does not delay B; the server task never crashes (no inconsistent-state error).
"""

from __future__ import annotations

import contextlib

from easynetwork.exceptions import DatagramProtocolParseError
from easynetwork.lowlevel.api_async.servers.datagram import AsyncDatagramServer
from easynetwork.protocol import DatagramProtocol
from easynetwork.servers.handlers import AsyncDatagramRequestHandler
from easynetwork.servers.misc import build_lowlevel_datagram_server_handler

from sx.engine import Outcome

from . import streamlib as L
from .asyncenv import MemDatagramListener, backend, loop_context

NONTRIVIAL_RULE = "a datagram arrived while its client's generator was active (queued), a generator respawn, a parse error or a timeout occurred"
STUBS = ["DetLoop; MemDatagramListener (real DatagramListenerProtocol fed by the scenario; fake asyncio datagram transport)", "RawFixed(1) harness serializer (payload 0x21 = malformed)"]
ASSUMPTIONS = ["datagram reception order is the order in which the scenario injects them (the listener's responsibility per the code's own comment)"]
BOUNDS = {"quick": "<= 3 datagrams from A and 2 from B (up to 3 of them received before serve() starts), K <= 4 events, handler shapes listed in the shards (through build_lowlevel_datagram_server_handler and as raw low-level generators)", "thorough": "4+3 datagrams, K <= 7"}
OUTSIDE = "real asyncio datagram transport, kernel drops, queues longer than a few datagrams (e.g. an artificial bound of 256 entries is not reachable)"


class Shaped(AsyncDatagramRequestHandler):
    def __init__(self, be, log, per_gen, suspend, timeout, block_a, cancelled_a=False):
        self.cancelled_a = cancelled_a
        self.be = be
        self.log = log
        self.per_gen = per_gen
        self.suspend = suspend
        self.timeout = timeout
        self.block_a = block_a
        self.active = {}
        self.max_active = 0
        self.gen_count = 0

    async def handle(self, client):
        addr = client.address
        self.active[addr] = self.active.get(addr, 0) + 1
        if self.active[addr] > self.max_active:
            self.max_active = self.active[addr]
        self.gen_count += 1
        if addr == "A":
            self.gen_count_of_a = getattr(self, "gen_count_of_a", 0) + 1
        self.log.append(("gen-start", addr))
        try:
            n = 0
            while self.per_gen == 0 or n < self.per_gen:
                n += 1
                try:
                    req = yield self.timeout
                except DatagramProtocolParseError:
                    self.log.append(("err", addr))
                except TimeoutError:
                    self.log.append(("timeout", addr))
                    n -= 1
                    continue
                else:
                    self.log.append(("req", addr, req))
                if self.block_a and addr == "A":
                    await self.be.sleep_forever()
                for _ in range(self.suspend):
                    await self.be.coro_yield()
                if self.cancelled_a and addr == "A" and self.gen_count_of_a == 1:
                    # the handler lets a CancelledError escape although nobody cancelled the server (e.g. it awaited a helper
                    # task that was cancelled): for the server this is just a generator that ended
                    raise self.be.get_cancelled_exc_class()()
        finally:
            self.active[addr] -= 1
            self.log.append(("gen-close", addr))


def serve(na: int, nb: int, K: int, per_gen: int, suspend: int = 0, timeout=None, block_a: bool = False, prefix: list = (), cancelled_a: bool = False, early: list = (), raw: bool = False):
    """early: addresses whose first datagrams are received by the listener BEFORE serve() runs (the endpoint is bound before the
    server starts serving; the real DatagramListenerProtocol keeps them and hands them over when serve() starts)."""

    def scenario(S):
        # one datagram per address is well-formed or malformed by solver choice, the others are well-formed
        seqs = {
            "A": [S.bytes_in(1, (L.MARK, 65 + i), f"a{i}_") if i == 1 else bytes([65 + i]) for i in range(na)],
            "B": [S.bytes_in(1, (L.MARK, 97 + i), f"b{i}_") if i == 0 else bytes([97 + i]) for i in range(nb)],
        }
        with loop_context() as loop:
            be = backend()
            listener = MemDatagramListener(be, loop)
            server = AsyncDatagramServer(listener, DatagramProtocol(L.RawFixed(1)))
            log = []
            H = Shaped(be, log, per_gen, suspend, timeout, block_a, cancelled_a)

            @contextlib.asynccontextmanager
            async def initializer(ctx):
                yield ctx

            handler = build_lowlevel_datagram_server_handler(initializer, H)
            if raw:
                handler = H.handle  # the low-level API used directly: the generator function itself is the datagram_received_cb

            async def main():
                async with be.create_task_group() as tg:
                    await server.serve(handler, tg)

            sent = {"A": 0, "B": 0}
            for addr in early:
                listener.inject(seqs[addr][sent[addr]], addr)
                sent[addr] += 1
            main_task = loop.create_task(main())
            loop.step()
            queued = 0

            def inject(addr):
                nonlocal queued
                i = sent[addr]
                if i < len(seqs[addr]):
                    if H.active.get(addr, 0) > 0:
                        queued += 1
                    sent[addr] = i + 1
                    listener.inject(seqs[addr][i], addr)
                else:
                    loop.step()

            for i in range(K):
                c = prefix[i] if i < len(prefix) else S.choice(3, f"ev{i}")
                if c == 0:
                    loop.step()
                elif c == 1:
                    inject("A")
                else:
                    inject("B")
            while sent["A"] < na:
                inject("A")
            while sent["B"] < nb:
                inject("B")
            for _ in range(10 * (na + nb) * (suspend + 2) + 40):
                if timeout is not None:
                    loop.advance(1)
                loop.step()
                if loop.idle() and not block_a:
                    break
            snapshot = [ev[:2] for ev in log]  # (teardown order of the remaining generators is not part of the outcome)
            crashed = main_task.done()
            crash_exc = None
            if crashed and not main_task.cancelled():
                crash_exc = repr(main_task.exception())
            main_task.cancel()
            loop.run_until_idle(60)
            ok = not crashed and not loop.exceptions and H.max_active <= 1
            for addr in ("A", "B"):
                want = []
                for p in seqs[addr]:
                    want.append(("err",) if p[0] == L.MARK else ("req", p))
                if block_a and addr == "A":
                    want = want[:1]  # A's handler handles its first datagram and then blocks forever (by construction)
                got = [(ev[0],) if ev[0] == "err" else ("req", ev[2]) for ev in log if ev[0] in ("req", "err") and ev[1] == addr]
                if len(got) != len(want):
                    ok = False
                else:
                    for g, w in zip(got, want):
                        if g[0] != w[0] or (g[0] == "req" and not (g[1] == w[1])):
                            ok = False
            if timeout is None and any(ev[0] == "timeout" for ev in log):
                ok = False
            tags = []
            if queued:
                tags.append("queued-while-active")
            if H.gen_count > 2:
                tags.append("respawn")
            if early:
                tags.append("queued-while-active")  # received before serve(): delivered late by construction
            if any(ev[0] == "err" for ev in log):
                tags.append("parse-error")
            if any(ev[0] == "timeout" for ev in log):
                tags.append("timeout")
            return Outcome(ok=ok, skeleton=snapshot, tags=tuple(tags), detail={"log": log, "max_active_generators_per_client": H.max_active, "server_crashed": crash_exc, "loop_exceptions": [str(c.get("message")) + repr(c.get("exception")) for c in loop.exceptions]})

    return scenario


def shards(tier: str):
    out = []
    quick = tier == "quick"
    B = 200 if quick else 1500
    K = 4 if quick else 7
    na, nb = (3, 2) if quick else (4, 3)
    shapes = [
        ("g1-s0", dict(per_gen=1, suspend=0)),
        ("g1-s1", dict(per_gen=1, suspend=1)),
        ("g2-s1", dict(per_gen=2, suspend=1)),
        ("ginf-s0", dict(per_gen=0, suspend=0)),
        ("ginf-s2", dict(per_gen=0, suspend=2)),
        ("ginf-t0", dict(per_gen=0, suspend=1, timeout=0)),
        ("g1-t0", dict(per_gen=1, suspend=0, timeout=0)),
        ("blockA", dict(per_gen=0, suspend=0, block_a=True)),
    ]
    extra = [
        ("cancelledA", dict(per_gen=0, suspend=2, cancelled_a=True)),
        ("raw/cancelledA", dict(per_gen=0, suspend=2, cancelled_a=True, raw=True)),
        ("raw/g1-s1", dict(per_gen=1, suspend=1, raw=True)),
        ("raw/ginf-t0", dict(per_gen=0, suspend=1, timeout=0, raw=True)),
        ("early-AB/blockA", dict(per_gen=0, suspend=0, block_a=True, early=["A", "B"])),
        ("early-AAB/g1-s1", dict(per_gen=1, suspend=1, early=["A", "A", "B"])),
        ("early-BA/ginf-s2", dict(per_gen=0, suspend=2, early=["B", "A"])),
    ]
    for name, shape in shapes + extra:
        for pre in range(3):
            out.append({"name": f"serve/{name}/K{K}/pre{pre}", "scenario": "props.c16:serve", "params": dict(na=na, nb=nb, K=K, prefix=[pre], **shape), "budget": B, "cost": 3**K, "per_path_timeout": 30})
    return out
