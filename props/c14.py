"""C14 - Closing releases the underlying resource at every cancellation point.

Crash point and fault as solver variables: each close path runs in a task on the deterministic loop; task.cancel() is injected
at the k-th loop iteration (k symbolic, 0..Kmax, Kmax larger than the longest un-cancelled run), together with a solver-chosen
fault (which wrapped aclose()/send raises which exception) and, for TLS, whether the shutdown timeout expires first.
Paths: AsyncStapledStreamTransport.aclose (_close_stapled_transports), aclose_forcefully, AsyncStreamEndpoint.aclose,
_ConnectedClientAPI.aclose (servers/async_tcp.py), AsyncioTransportStreamSocketAdapter.aclose, AsyncTLSStreamTransport.aclose and
.wrap (stub SSL object: the peer never answers, so unwrap()/do_handshake() stay in want-read).
Asserted when the close task has finished (returned, raised, timed out or cancelled): aclose() was invoked on every wrapped
transport - both halves of a stapled transport even when closing the first raised; a cancelled/failed wrap() closed the wrapped
transport; is_closing() of the outer object is true; a second aclose() completes within a few iterations.
"""

from __future__ import annotations

import ssl as _ssl

from easynetwork.lowlevel._stream import StreamDataProducer
from easynetwork.lowlevel.api_async.backend._asyncio.stream.socket import AsyncioTransportStreamSocketAdapter, StreamReaderBufferedProtocol
from easynetwork.lowlevel.api_async.endpoints.stream import AsyncStreamEndpoint
from easynetwork.lowlevel.api_async.servers.stream import ConnectedStreamClient
from easynetwork.lowlevel.api_async.transports.composite import AsyncStapledStreamTransport
from easynetwork.lowlevel.api_async.transports.tls import AsyncTLSStreamTransport
from easynetwork.lowlevel.api_async.transports.utils import aclose_forcefully
from easynetwork.lowlevel.socket import new_socket_address
from easynetwork.protocol import StreamProtocol
from easynetwork.servers.async_tcp import _ConnectedClientAPI

from sx.engine import Outcome

from . import streamlib as L
from .asyncenv import FakeAsyncioTransport, MemStreamTransport, backend, loop_context
from .c12 import StubBIO

NONTRIVIAL_RULE = "the cancellation landed while the close was still running, or a wrapped close raised"
STUBS = [
    "DetLoop; MemStreamTransport (aclose() marks closed at once, then suspends 1-2 iterations, then may raise the scripted error)",
    "SilentSSL: stands for ssl.SSLObject whose peer never answers (unwrap()/do_handshake() raise SSLWantReadError after writing one record); StubContext.wrap_bio returns it; AnsweredSSL: unwrap() completes at once (close_notify already received)",
    "FakeAsyncioTransport for the asyncio adapter",
]
ASSUMPTIONS = ["a wrapped transport counts as released when its aclose() has been invoked (the in-memory transport is closed from that moment)"]
BOUNDS = {"quick": "one cancellation at iteration k in 1..8 (and two cancellations k < k2 in 1..6), faults per wrapped transport out of {none, OSError, RuntimeError}, close suspensions 1-2; concurrent sender stalled for 1/3/40 iterations (close-busy); connection attempt taking 1-3 iterations, close starting 0-3 iterations into it (aclient-connecting); TLS aclose: silent or already-answered peer x shutdown timeout 5 / 0 (already expired); TLS wrap: silent peer or local handshake failure, wrapped send failing / stalling 0 or 3 iterations", "thorough": "k up to 12 / 10"}
OUTSIDE = "real sockets, real OpenSSL shutdown, trio"

FAULTS = [lambda: None, lambda: OSError(104, "reset"), lambda: RuntimeError("boom")]  # fresh exception objects per path


class SilentSSL:
    """peer never answers: every handshake/unwrap attempt emits a record and wants to read"""

    def __init__(self, wbio, fail_locally=False):
        self.wbio = wbio
        self.context = None
        self.fail_locally = fail_locally
        self.handshakes = 0

    def do_handshake(self):
        self.handshakes += 1
        if self.fail_locally and self.handshakes >= 2:
            # local TLS-level failure (e.g. certificate verification): an alert record is queued for the peer, then SSLError
            self.wbio.write(b"ALERT")
            raise _ssl.SSLError(1, "[SSL: CERTIFICATE_VERIFY_FAILED] stub")
        self.wbio.write(b"H")
        raise _ssl.SSLWantReadError()

    def unwrap(self):
        self.wbio.write(b"U")
        raise _ssl.SSLWantReadError()

    def getpeercert(self, *a):
        return None

    def cipher(self):
        return None

    def compression(self):
        return None

    def version(self):
        return None


class AnsweredSSL(SilentSSL):
    """the peer's close_notify has already been received: unwrap() emits our close_notify and completes without wanting to read"""

    def unwrap(self):
        self.wbio.write(b"U")
        return None


class StubContext:
    def __init__(self, fail_locally=False):
        self.made = None
        self.fail_locally = fail_locally

    def wrap_bio(self, read_bio, write_bio, **kw):
        self.made = SilentSSL(write_bio, self.fail_locally)
        return self.made


def close(path: str, Kmax: int = 8, susp: int = 1, two_cancels: bool = False, busy: bool = False, exclude: list = (), peer_answered=None):
    """busy=True (paths serverapi / aclient, the objects documented as not requiring task synchronization): another task is inside
    send_packet() - the peer does not read for a solver-chosen number of iterations - when the close starts, so the close first has
    to wait for the send lock.  exclude=["close_lockwait"]: skip the schedules covered by the open known findings F-C14-lockwait-*
    (the close task is cancelled while it is still waiting for that lock)."""

    def scenario(S):
        with loop_context() as loop:
            be = backend()
            k = S.int(1, Kmax, "cancel_at")  # >= 1: the close operation has started (its task ran its first step)
            k2 = S.int(1, Kmax, "cancel_again_at") if two_cancels else -1
            if two_cancels:
                S.assume(k2 > k)
            trs = []

            def mem(fault_idx, close_susp=susp):
                t = MemStreamTransport(be, b"", available=0, loop=loop)
                t.close_suspensions = close_susp
                t.close_error = FAULTS[fault_idx]()
                trs.append(t)
                return t

            outer_closing = lambda: True  # noqa: E731
            second = None
            expire = False
            if path == "stapled":
                a = mem(S.choice(3, "fault_send"))
                b = mem(S.choice(3, "fault_recv"))
                obj = AsyncStapledStreamTransport(a, b)
                op = obj.aclose
                outer_closing = obj.is_closing
                second = obj.aclose
            elif path == "forcefully":
                a = mem(S.choice(3, "fault"), close_susp=2)
                op = lambda: aclose_forcefully(a)  # noqa: E731
            elif path == "endpoint":
                a = mem(S.choice(3, "fault"))
                obj = AsyncStreamEndpoint(a, StreamProtocol(L.RawSep(b"\n", limit=8)), max_recv_size=4)
                op = obj.aclose
                outer_closing = obj.is_closing
                second = obj.aclose
            elif path == "serverapi":
                a = mem(S.choice(3, "fault"))
                low = ConnectedStreamClient(_transport=a, _producer=StreamDataProducer(StreamProtocol(L.RawSep(b"\n", limit=8))))
                obj = _ConnectedClientAPI(new_socket_address(("127.0.0.1", 2), 2), low)
                op = obj.aclose
                outer_closing = obj.is_closing
                second = obj.aclose
            elif path == "adapter":
                p = StreamReaderBufferedProtocol(loop=loop)
                ft = FakeAsyncioTransport(loop, p)
                p.connection_made(ft)
                obj = AsyncioTransportStreamSocketAdapter(be, ft, p)
                buffered = S.bool("buffered")  # unsent bytes keep the asyncio transport open until flushed
                if buffered:
                    ft.accept_now = lambda n: 0
                    ft.write(b"zz")
                op = obj.aclose
                outer_closing = obj.is_closing
                second = obj.aclose
            elif path == "tls-aclose":
                a = mem(S.choice(3, "fault"))
                a.send_error = [None, OSError(32, "pipe"), RuntimeError("boom")][S.choice(3, "send_fault")]
                rbio, wbio = StubBIO(), StubBIO()
                # the closing handshake either never completes (silent peer) or completes at once (close_notify already received);
                # the shutdown timeout is generous or already expired when the close starts (shutdown_timeout=0)
                answered = S.bool("peer_answered") if peer_answered is None else peer_answered
                sh_timeout = S.pick([5.0, 0.0], "shutdown_timeout")
                obj = AsyncTLSStreamTransport(_transport=a, _standard_compatible=True, _shutdown_timeout=sh_timeout, _ssl_object=(AnsweredSSL if answered else SilentSSL)(wbio), _read_bio=rbio, _write_bio=wbio)
                expire = S.bool("shutdown_timeout_first")
                op = obj.aclose
                outer_closing = obj.is_closing
                second = obj.aclose
            elif path == "aclient":
                # the real AsyncTCPNetworkClient: connect (first use), then aclose()
                from easynetwork.clients.async_tcp import AsyncTCPNetworkClient

                from .c12 import MemBackend

                fault = S.choice(3, "fault")
                mb = MemBackend(lambda: mem(fault))
                obj = AsyncTCPNetworkClient(("host", 1), StreamProtocol(L.RawSep(b"\n", limit=8)), mb)
                t0 = loop.create_task(obj.wait_connected())
                for _ in range(10):
                    loop.step()
                    if t0.done():
                        break
                t0.result()
                op = obj.aclose
                outer_closing = obj.is_closing
                second = obj.aclose
            elif path == "tls-wrap":
                a = mem(S.choice(3, "fault"))
                expire = S.bool("handshake_timeout_first")
                # the wrapped transport may also fail or stall when asked to send (handshake records, alerts)
                a.send_error = [None, OSError(32, "pipe"), RuntimeError("boom")][S.choice(3, "send_fault")]
                stall = S.pick([0, 3], "send_stalls_for")
                a.send_suspensions = lambda: stall
                fail_locally = S.bool("handshake_fails_locally")
                # the peer answers the first flight (so that a second do_handshake() call happens) when the failure is local
                if fail_locally:
                    a.incoming = b"S"
                    a.available = 1
                op = lambda: AsyncTLSStreamTransport.wrap(a, StubContext(fail_locally), handshake_timeout=5.0, server_hostname="x")  # noqa: E731
            elif path == "aclient-connecting":
                # the real AsyncTCPNetworkClient: aclose() while the (lazy) connection attempt of another task is in flight
                from easynetwork.clients.async_tcp import AsyncTCPNetworkClient

                from .c12 import MemBackend

                fault = S.choice(3, "fault")
                delay = S.pick([1, 2, 3], "connect_takes")

                class SlowBackend(MemBackend):
                    async def create_tcp_connection(self, host, port, **kw):
                        for _ in range(delay):
                            await self.coro_yield()
                        return self._factory()

                mb = SlowBackend(lambda: mem(fault))
                obj = AsyncTCPNetworkClient(("host", 1), StreamProtocol(L.RawSep(b"\n", limit=8)), mb)
                connecting = loop.create_task(obj.wait_connected())
                for _ in range(S.pick([0, 1, 2, 3], "close_starts_after")):
                    loop.step()
                op = obj.aclose
                outer_closing = obj.is_closing
                second = obj.aclose
            else:
                raise ValueError(path)

            sender = None
            if busy:
                blocked_for = S.pick([1, 3, 40], "peer_stalls_for")
                trs[0].send_suspensions = lambda: blocked_for
                sender = loop.create_task(obj.send_packet(b"x"))
                loop.step()
                loop.step()  # the sender now holds the send lock and is suspended in the transport
            st = {"result": None}
            lockwait_cancel = False

            async def run():
                try:
                    await op()
                    st["result"] = "returned"
                except BaseException as e:  # noqa: BLE001
                    st["result"] = "cancelled" if type(e).__name__ == "CancelledError" else "raised:" + type(e).__name__
                    if st["result"] == "cancelled":
                        raise

            task = loop.create_task(run())
            cancelled_running = False
            for i in range(Kmax + 1):
                if (i == k or i == k2) and not task.done():
                    cancelled_running = True
                    if sender is not None and trs[0].close_calls == 0:  # still acquiring the send lock (held by, or just handed over from, the sender)
                        lockwait_cancel = True
                        if "close_lockwait" in exclude:
                            S.assume(False)
                    task.cancel()
                if expire and i == 2:
                    loop.advance(6)
                if path == "adapter":
                    ft.flush(1)
                loop.step()
            for _ in range(12):
                if path == "adapter":
                    ft.flush(4)
                if task.done():
                    break
                loop.step()
            if path == "aclient-connecting":
                loop.run_until_idle(60)
                if connecting.done() and not connecting.cancelled():
                    connecting.exception()
            if sender is not None:
                for _ in range(50):
                    if sender.done():
                        break
                    loop.step()
                if not sender.done():
                    sender.cancel()
                    loop.run_until_idle(30)
                if not sender.cancelled():
                    sender.exception()
            ok = task.done()
            problems = []
            if not task.done():
                problems.append("close never finished")
            for i, t in enumerate(trs):
                if t.close_calls < 1:
                    ok = False
                    problems.append(f"wrapped transport {i} was never closed (result {st['result']})")
            if path == "adapter" and not ft.closing:
                ok = False
                problems.append("asyncio transport not closed")
            if path not in ("forcefully", "tls-wrap") and not outer_closing():
                ok = False
                problems.append("outer object does not report is_closing()")
            if ok and second is not None:
                t2 = loop.create_task(second())
                for _ in range(6):
                    if path == "adapter":
                        ft.flush(4)
                    loop.step()
                    if t2.done():
                        break
                if not t2.done():
                    ok = False
                    problems.append("second aclose() did not return promptly")
                    t2.cancel()
                elif t2.cancelled():
                    ok = False
                    problems.append("second aclose() raised CancelledError although nobody cancelled it")
                else:
                    t2.exception()
            tags = []
            if cancelled_running:
                tags.append("cancelled-while-closing")
            if any(t.close_error is not None for t in trs):
                tags.append("wrapped-close-raises")
            if lockwait_cancel:
                tags.append("cancelled-while-waiting-for-the-send-lock")
            return Outcome(ok=ok, skeleton=(st["result"], [t.close_calls for t in trs]), tags=tuple(tags), detail={"problems": problems, "result": st["result"], "close_calls": [t.close_calls for t in trs], "cancel_at": k})

    return scenario


def shards(tier: str):
    out = []
    quick = tier == "quick"
    B = 200 if quick else 1200
    for path in ("stapled", "forcefully", "endpoint", "serverapi", "adapter", "tls-aclose", "tls-wrap", "aclient", "aclient-connecting"):
        for susp in (1, 2) if path in ("stapled", "serverapi", "tls-aclose") else (1,):
            out.append({"name": f"close/{path}/s{susp}", "scenario": "props.c14:close", "params": dict(path=path, Kmax=8 if quick else 12, susp=susp), "budget": B, "cost": 100, "per_path_timeout": 30})
        # two cancellations (the second one lands while the first is being handled)
        if path == "tls-aclose":
            for ans in (False, True):
                out.append({"name": f"close2/{path}/{'answered' if ans else 'silent'}", "scenario": "props.c14:close", "params": dict(path=path, Kmax=6 if quick else 10, susp=2, two_cancels=True, peer_answered=ans), "budget": B, "cost": 300, "per_path_timeout": 30})
            continue
        out.append({"name": f"close2/{path}", "scenario": "props.c14:close", "params": dict(path=path, Kmax=6 if quick else 10, susp=2, two_cancels=True), "budget": B, "cost": 300, "per_path_timeout": 30})
    for path in ("serverapi", "aclient"):
        # a concurrent sender holds the send lock (peer not reading) when the close starts
        out.append({"name": f"close-busy/{path}", "scenario": "props.c14:close", "params": dict(path=path, Kmax=8 if quick else 12, susp=1, busy=True), "budget": B, "cost": 200, "per_path_timeout": 30, "accepts_exclude": True})
    return out
