"""C04 - send_packet writes exactly the packet's bytes and always terminates.

Scenario: the real SocketStreamTransport / StreamEndpoint over a FakeSocket whose send()/sendmsg() accept a
solver-chosen number of bytes (1..offered) or raise BlockingIOError (solver-chosen, bounded number of times); the
selector stub then reports readiness.  The packet is a vector of chunks of fixed lengths (0 included, in every
position) with symbolic contents.

Asserted: the call returns; the bytes accepted by the fake kernel, concatenated, equal the concatenation of the
chunks (nothing dropped, duplicated or reordered); the number of environment calls stays within the fuel bound
  total_bytes + 2*#EAGAIN + #chunks + 4
(exceeding it without the virtual clock being able to end the call = the operation spins forever).
"""

from __future__ import annotations

import math

from easynetwork.lowlevel import constants
from easynetwork.lowlevel.api_sync.endpoints.stream import StreamEndpoint
from easynetwork.lowlevel.api_sync.transports.socket import SocketStreamTransport
from easynetwork.protocol import StreamProtocol
from easynetwork.serializers.abc import AbstractIncrementalPacketSerializer

from sx.engine import Outcome

from .syncenv import INF, Env, FakeSocket, Fuel, StubSelector, patched_clock

NONTRIVIAL_RULE = "a partial write, a would-block or an empty chunk occurred on the path"
STUBS = [
    "FakeSocket (socket.socket subclass, no I/O): send/sendmsg accept 1..offered bytes (0 iff nothing offered) or raise BlockingIOError",
    "StubSelector: select(w) returns after e <= w ticks, 'not ready' only after the full w; select() without timeout always becomes ready",
    "VirtualClock: time.perf_counter as seen by easynetwork.lowlevel._utils",
    "FakeAsyncioTransport (async/* shards): asyncio.Transport double honouring set_write_buffer_limits / pause_writing / resume_writing; the kernel takes a solver-chosen part of each write and of each flush",
    "ChunkSerializer: harness incremental serializer yielding the packet's chunk vector unchanged",
]
ASSUMPTIONS = ["at most K would-block results per call (K per shard); a writable socket accepts at least one byte"]
BOUNDS = {
    "quick": "<= 4 chunks of 0..2 bytes (every position of the empty chunks), <= 2 would-blocks, SC_IOV_MAX in {real, 2, 0 (join path)}, transport and endpoint level",
    "thorough": "<= 5 chunks of 0..3 bytes, <= 3 would-blocks",
}
OUTSIDE = "the real kernel, SSLStreamTransport (OpenSSL), the real asyncio selector transport (replaced by FakeAsyncioTransport in the async/* shards), async TLS backlog (see C12)"


class ChunkSerializer(AbstractIncrementalPacketSerializer):
    __slots__ = ()

    def incremental_serialize(self, packet):
        for c in packet:
            yield c

    def incremental_deserialize(self):
        data = yield
        return data, b""


def send(lens: list, mode: str, max_eagain: int = 1, iov: int = -1):
    """mode: sendmsg | join | endpoint | send_all ; iov: value for constants.SC_IOV_MAX (-1 = leave as is)"""

    def scenario(S):
        chunks = [S.bytes(n, f"c{i}_") for i, n in enumerate(lens)]
        total = sum(lens)
        expected = b""
        for c in chunks:
            expected = expected + c
        env = Env(S, fuel=total + 2 * max_eagain + len(lens) + 4, max_eagain=max_eagain, cap=max(total, 1), symbolic_time=False)  # T = inf: time plays no role here (see C11)
        sock = FakeSocket(env)
        saved_iov = constants.SC_IOV_MAX
        try:
            if iov >= 0 or mode == "join":
                constants.SC_IOV_MAX = 0 if mode == "join" else iov
            tr = SocketStreamTransport(sock, INF, selector_factory=lambda: StubSelector(env))
            outcome = "returned"
            try:
                with patched_clock(env):
                    if mode in ("sendmsg", "join"):
                        tr.send_all_from_iterable(iter(chunks), INF)
                    elif mode == "send_all":
                        tr.send_all(expected, INF)
                    else:
                        ep = StreamEndpoint(tr, StreamProtocol(ChunkSerializer()), max_recv_size=16)
                        ep.send_packet(chunks)
            except Fuel:
                outcome = "spins"
            except Exception as e:  # noqa: BLE001
                outcome = "raised:" + type(e).__name__
            wire = sock.sent()
        finally:
            constants.SC_IOV_MAX = saved_iov
            sock.really_close()
        ok = outcome == "returned" and wire == expected
        tags = []
        if env.eagains:
            tags.append("would-block")
        if sock.send_calls > 1:
            tags.append("partial-or-multi-write")
        if 0 in lens:
            tags.append("empty-chunk")
        return Outcome(ok=ok, skeleton=(outcome, len(wire), sock.send_calls, env.calls), tags=tuple(tags), detail={"outcome": outcome, "wire": wire, "expected": expected, "socket_calls": sock.send_calls, "env_calls": env.calls, "fuel": env.fuel})

    return scenario


def _vectors(maxq, maxlen):
    import itertools

    out = []
    for q in range(1, maxq + 1):
        for v in itertools.product(range(maxlen + 1), repeat=q):
            out.append(list(v))
    return out


def asend(lens: list, api: str, K: int, packets: int = 1):
    """Asynchronous senders over the REAL asyncio socket adapter + flow control on the deterministic loop:
    api = endpoint      AsyncStreamEndpoint.send_packet (ChunkSerializer chunk vector -> adapter.send_all_from_iterable -> writelines)
          adapter-iter  AsyncioTransportStreamSocketAdapter.send_all_from_iterable
          adapter-all   AsyncioTransportStreamSocketAdapter.send_all (one chunk = the concatenation)
          default-iter  the default AsyncStreamWriteTransport.send_all_from_iterable (join + send_all) over the same adapter's send_all
    The fake asyncio transport's kernel accepts a solver-chosen part of every write at once and a solver-chosen number of bytes
    per flush; loop iterations and flushes are interleaved by solver choice.  Chunk CONTENTS are concrete distinct bytes here
    (the contents cannot matter once the sizes are fixed; the symbolic-content shards are the sync ones above).
    Asserted: every send returns, returns only after all its bytes were handed to the kernel, and the kernel saw exactly the
    concatenation of the chunks of every packet, in order, once."""
    import asyncio

    from easynetwork.lowlevel.api_async.backend._asyncio.backend import AsyncIOBackend
    from easynetwork.lowlevel.api_async.backend._asyncio.stream.socket import AsyncioTransportStreamSocketAdapter, StreamReaderBufferedProtocol
    from easynetwork.lowlevel.api_async.endpoints.stream import AsyncStreamEndpoint
    from easynetwork.lowlevel.api_async.transports.abc import AsyncStreamWriteTransport

    from .asyncenv import FakeAsyncioTransport, loop_context

    def scenario(S):
        with loop_context() as loop:
            be = AsyncIOBackend()
            p = StreamReaderBufferedProtocol(loop=loop)
            tr = FakeAsyncioTransport(loop, p)
            p.connection_made(tr)
            adapter = AsyncioTransportStreamSocketAdapter(be, tr, p)
            tr.accept_now = lambda n: S.int(0, n, "now")
            vectors = []
            nxt = 65
            for k in range(packets):
                vec = []
                for n in lens:
                    vec.append(bytes(range(nxt, nxt + n)))
                    nxt += n
                vectors.append(vec)
            expected = b"".join(b"".join(v) for v in vectors)

            def handed():
                return sum(len(w) for w in tr.wire)

            if api == "endpoint":
                ep = AsyncStreamEndpoint(adapter, StreamProtocol(ChunkSerializer()), max_recv_size=8)
                send = lambda vec: ep.send_packet(vec)  # noqa: E731
            elif api == "adapter-iter":
                send = lambda vec: adapter.send_all_from_iterable(iter(vec))  # noqa: E731
            elif api == "adapter-all":
                send = lambda vec: adapter.send_all(b"".join(vec))  # noqa: E731
            else:

                class Default(AsyncStreamWriteTransport):
                    async def send_all(self, data):
                        await adapter.send_all(data)

                    async def aclose(self):
                        pass

                    def is_closing(self):
                        return False

                    def backend(self):
                        return be

                    @property
                    def extra_attributes(self):
                        return {}

                d = Default()
                send = lambda vec: d.send_all_from_iterable(iter(vec))  # noqa: E731
            st = {"returns": [], "error": None}

            async def run():
                done = 0
                for vec in vectors:
                    await send(vec)
                    done += len(b"".join(vec))
                    st["returns"].append((done, handed()))

            t = loop.create_task(run())
            partial = 0
            for i in range(K):
                if t.done():
                    break
                if S.bool(f"flush{i}"):
                    if tr.buffer:
                        partial += 1
                    tr.flush(S.int(1, 3, f"fl{i}"))
                else:
                    loop.step()
            for _ in range(6 * packets + 2 * sum(lens) * packets + 10):
                if t.done():
                    break
                tr.flush(1)
                loop.step()
            finished = t.done()
            if finished and not t.cancelled() and t.exception() is not None:
                st["error"] = repr(t.exception())
            if not finished:
                t.cancel()
                loop.run_until_idle(30)
            wire = b"".join(tr.wire)
            ok = finished and st["error"] is None and wire == expected and len(st["returns"]) == packets
            if ok:
                for done, h in st["returns"]:
                    if h < done:
                        ok = False  # returned before its bytes reached the kernel
            tags = []
            if partial or tr.max_buffered:
                tags.append("partial-write")
            if 0 in lens:
                tags.append("empty-chunk")
            return Outcome(ok=ok, skeleton=(finished, len(st["returns"]), len(wire)), tags=tuple(tags), detail={"wire": wire, "expected": expected, "finished": finished, "error": st["error"], "returns": st["returns"]})

    return scenario


def shards(tier: str):
    out = []
    quick = tier == "quick"
    B = 120 if quick else 900

    def add(name, params, cost):
        out.append({"name": name, "scenario": "props.c04:send", "params": params, "budget": B, "cost": cost, "per_path_timeout": 20})

    if quick:
        vecs = [v for v in _vectors(3, 2) if sum(v) <= 4] + [[1, 0, 2, 0], [0, 0, 1, 0], [2, 1, 0, 1]]
    else:
        vecs = [v for v in _vectors(4, 3) if sum(v) <= 6] + [[1, 0, 2, 0, 1], [0, 1, 0, 0, 2]]
    for v in vecs:
        nm = "-".join(map(str, v))
        add(f"sendmsg/{nm}", dict(lens=v, mode="sendmsg", max_eagain=1 if quick else 2), cost=3 ** sum(v) * len(v))
        if len(v) >= 3:
            add(f"sendmsg-iov2/{nm}", dict(lens=v, mode="sendmsg", max_eagain=1, iov=2), cost=3 ** sum(v) * len(v))
        if sum(v) <= 3 or not quick:
            add(f"endpoint/{nm}", dict(lens=v, mode="endpoint", max_eagain=1), cost=3 ** sum(v) * len(v))
            add(f"join/{nm}", dict(lens=v, mode="join", max_eagain=1 if quick else 2), cost=3 ** sum(v))
    for n in (0, 1, 3, 4) if quick else (0, 1, 3, 5, 6):
        add(f"send_all/{n}", dict(lens=[n], mode="send_all", max_eagain=2), cost=3**n)
    # "... or fails with TimeoutError within its time budget": finite budget T with time as a solver variable (scenario shared with C11)
    for T in (1, 2) if quick else (1, 2, 4):
        for lens, mode in (([1, 1], "sendmsg"), ([2, 0, 1], "sendmsg"), ([2], "send_all"), ([1, 1], "join")):
            out.append({"name": f"budget/{mode}/{'-'.join(map(str, lens))}/T{T}", "scenario": "props.c11:send_budget", "params": dict(lens=lens, T=T, interval=1, mode=mode, max_eagain=2), "budget": B, "cost": 50, "per_path_timeout": 20})
    # asynchronous senders (asyncio adapter writelines/write + flow control, endpoint, default join implementation)
    for v in ([2, 1], [0, 2, 0], [1, 0, 2], [0, 0]) if quick else ([2, 1], [0, 2, 0], [1, 0, 2], [0, 0], [2, 2, 1], [3, 0, 0, 1]):
        nm = "-".join(map(str, v))
        for api in ("endpoint", "adapter-iter", "adapter-all", "default-iter"):
            out.append({"name": f"async/{api}/{nm}", "scenario": "props.c04:asend", "params": dict(lens=v, api=api, K=3 if quick else 6, packets=2), "budget": B, "cost": 200, "per_path_timeout": 30})
    # KS engine: loop-head induction for the timeout book-keeping loops (unbounded number of wake-ups / partial writes)
    out.append({"name": "ks/retry-send_all-sendmsg/loop-head-induction", "ks": "ks.retry:run_all", "scenario": "ks.retry:run_all", "params": {}, "budget": 120, "cost": 1})
    return out
