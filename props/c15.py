"""C15 - Stream server: each request reaches the handler exactly once, in order.

Real code: AsyncStreamServer.serve / __client_coroutine, _RequestReceiver / _BufferedRequestReceiver, ConnectedStreamClient,
_asyncgen.SendAction/ThrowAction/anext_without_asyncgen_hook and build_lowlevel_stream_server_handler (servers/misc.py), run
on the deterministic loop with real task groups and timeout scopes, over an in-memory listener + client transport.

The request stream = `frames` frames with symbolic payloads (a payload starting with 0x21 is malformed).  A solver-chosen
sequence of events (loop iteration | client sends the next k bytes | virtual time passes | client disconnects) is applied,
then the rest of the stream and EOF are delivered.  The handler shape comes from shard parameters: requests per handle()
generator (1, 2, unbounded), yielded timeout (None, 0, 5 ticks), on_connection as coroutine or generator, client closed by
the handler after request i.
Asserted: the sequence of requests and parse errors observed by the handler == reference decoding of the stream, in order,
each once, across generator restarts; TimeoutError is thrown only when no complete request had been received and the timeout
really elapsed; every started generator is closed exactly once; on disconnect/close the transport ends up closed and
on_disconnection ran once; responses are written in request order.
"""

from __future__ import annotations

import contextlib

from easynetwork.exceptions import StreamProtocolParseError
from easynetwork.lowlevel.api_async.servers.stream import AsyncStreamServer
from easynetwork.protocol import BufferedStreamProtocol, StreamProtocol
from easynetwork.servers.handlers import AsyncStreamRequestHandler
from easynetwork.servers.misc import build_lowlevel_stream_server_handler

from sx.engine import Outcome

from . import streamlib as L
from .asyncenv import MemListener, MemStreamTransport, backend, loop_context

NONTRIVIAL_RULE = "a generator restart, a parse error, a timeout, or >1 request in one chunk occurred"
STUBS = ["DetLoop; MemListener + MemStreamTransport (client bytes become available when the scenario feeds them; recv returns what is available up to the buffer size)", "RawSep harness serializer (payload starting with 0x21 = malformed)"]
ASSUMPTIONS = ["virtual time advances only through the scenario's 'time passes' events (grid values), never by symbolic amounts (symbolic values do not enter asyncio's timer heap)"]
BOUNDS = {"quick": "2-3 frames of 1 symbolic byte, K <= 4 events, all handler shapes listed in the shards", "thorough": "3 frames, K <= 6"}
OUTSIDE = "AsyncTCPNetworkServer wiring with real listeners, TLS"


class ShapedHandler(AsyncStreamRequestHandler):
    def __init__(self, log, per_gen, timeout, conn_gen, close_after, be, respond):
        self.log = log
        self.per_gen = per_gen
        self.timeout = timeout
        self.conn_gen = conn_gen
        self.close_after = close_after
        self.be = be
        self.respond = respond
        self.gen_id = 0
        self.nreq = 0
        self.observer = lambda: None

    def on_connection(self, client):
        if self.conn_gen:
            return self._conn_gen(client)
        return self._conn_coro(client)

    async def _conn_coro(self, client):
        self.log.append(("connected",))

    async def _conn_gen(self, client):
        self.log.append(("connected",))
        await self._take(client, None)  # the first request is consumed by on_connection
        return
        yield  # pragma: no cover

    async def on_disconnection(self, client):
        self.log.append(("disconnected",))

    async def _take(self, client, gid):
        raise NotImplementedError

    async def handle(self, client):
        self.gen_id += 1
        gid = self.gen_id
        self.log.append(("gen-start", gid))
        try:
            n = 0
            while self.per_gen == 0 or n < self.per_gen:
                n += 1
                self.observer()
                try:
                    req = yield self.timeout
                except StreamProtocolParseError:
                    self.log.append(("err",))
                    self.nreq += 1
                except TimeoutError:
                    self.log.append(("timeout",))
                    n -= 1
                    continue
                else:
                    self.log.append(("req", req))
                    self.nreq += 1
                    if self.respond:
                        await client.send_packet(req)
                if self.close_after and self.nreq >= self.close_after:
                    try:
                        await client.aclose()
                    except ConnectionError:
                        self.log.append(("close-raised",))  # the transport's close reported a connection error: the client is closed all the same
                    self.log.append(("handler-closed",))
                    return
        finally:
            self.log.append(("gen-close", gid))


class ConnGenHandler(ShapedHandler):
    """on_connection is an async generator that consumes the first request itself"""

    async def _conn_gen(self, client):
        self.log.append(("connected",))
        try:
            req = yield None
        except StreamProtocolParseError:
            self.log.append(("err",))
        else:
            self.log.append(("req", req))
        self.nreq += 1


class ConnGen2Handler(ShapedHandler):
    """on_connection is an async generator that consumes the first TWO requests, yielding a different timeout each time
    (5 ticks, then None): every yield's own timeout must be honoured"""

    async def _conn_gen(self, client):
        self.log.append(("connected",))
        for t in (5, None):
            while True:
                try:
                    req = yield t
                except StreamProtocolParseError:
                    self.log.append(("err",))
                except TimeoutError:
                    self.log.append(("conn-timeout", t))
                    continue
                else:
                    self.log.append(("req", req))
                break
            self.nreq += 1


def serve(frames: int, K: int, path: str, per_gen: int, timeout, conn_gen: int = 0, close_after: int = 0, bufsize: int = 16, respond: bool = True, prefix: list = (), close_raises: bool = False, highlevel: bool = False):
    def scenario(S):
        payloads = [S.bytes_in(1, (L.MARK, 65 + i), f"f{i}_") for i in range(frames)]  # each frame: well-formed or malformed
        stream = b""
        ref = []
        ends = []
        for p in payloads:
            stream = stream + p + b"\n"
            ends.append(len(stream))
            ref.append(("err",) if p[0] == L.MARK else ("req", p))
        N = len(stream)
        with loop_context() as loop:
            be = backend()
            if highlevel:
                from .asyncenv import MemServerBackend

                be = MemServerBackend(listener_delay=0)
            tr = MemStreamTransport(be, stream, available=0, loop=loop)
            if close_raises:
                tr.close_error = ConnectionResetError(104, "reset")  # raised by the transport's aclose() after it marked itself closed
            ser = L.RawSep(b"\n", limit=8)
            proto = BufferedStreamProtocol(ser) if path == "buf" else StreamProtocol(ser)
            server = AsyncStreamServer(MemListener(be, [tr]), proto, bufsize)
            log = []
            H = (ConnGen2Handler if conn_gen == 2 else ConnGenHandler if conn_gen else ShapedHandler)(log, per_gen, timeout, conn_gen, close_after, be, respond)
            st = {"bad_timeout": False, "t_yield": None, "avail_at_yield": 0}

            def complete_received():
                n = 0
                for e_ in ends:
                    if e_ <= tr.rpos:
                        n += 1
                return n

            def observer():
                # called right before the handler yields for the next request
                st["t_yield"] = loop.time()
                st["avail_at_yield"] = complete_received() - H.nreq

            H.observer = observer

            @contextlib.asynccontextmanager
            async def initializer(lowlevel_client):
                yield lowlevel_client

            handler = build_lowlevel_stream_server_handler(initializer, H)

            async def main():
                async with be.create_task_group() as tg:
                    await server.serve(handler, tg)

            if highlevel:
                # the same traffic through the real AsyncTCPNetworkServer (client API object, client initializer) instead of the bare
                # low-level server
                import logging

                from easynetwork.servers.async_tcp import AsyncTCPNetworkServer

                lg = logging.getLogger("verif.c15")
                lg.disabled = True
                hl = AsyncTCPNetworkServer("h", 0, proto, H, be, max_recv_size=bufsize, logger=lg)
                main_task = loop.create_task(hl.serve_forever())
                for _ in range(8):
                    loop.step()
                    if hl.is_serving():
                        break
                be.listeners[0].connect(tr)
            else:
                main_task = loop.create_task(main())
            disconnected_by_peer = False
            for i in range(K):
                nev = 2 if (timeout is None and conn_gen != 2) else 3  # 'time passes' only matters when the handler yields a timeout
                c = prefix[i] if i < len(prefix) else S.choice(nev, f"ev{i}")
                if c == 0:
                    loop.step()
                elif c == 1:
                    tr.feed(S.int(1, 4, f"k{i}"))
                else:
                    loop.advance(3)
                    loop.step()
                # timeouts observed so far must be legitimate
                ntimeouts = 0
                for ev in log:
                    if ev[0] == "timeout":
                        ntimeouts += 1
                if ntimeouts and st["avail_at_yield"] > 0 and log[-1][0] == "timeout":
                    st["bad_timeout"] = True
            tr.feed(N)
            tr.feed_eof()
            done = False
            for _ in range(12 * frames + 40):
                if timeout is not None:
                    loop.advance(1)
                loop.step()
                if tr.closed and loop.idle():
                    done = True
                    break
            # the server task sleeps forever by design: stop it
            main_task.cancel()
            loop.run_until_idle(50)
            observed = [ev for ev in log if ev[0] in ("req", "err")]
            want = ref if not close_after else ref[:close_after]
            ok = len(observed) == len(want)
            if ok:
                for o, w in zip(observed, want):
                    if o[0] != w[0] or (o[0] == "req" and not (o[1] == w[1])):
                        ok = False
            # generators: each started one closed exactly once
            starts = [ev[1] for ev in log if ev[0] == "gen-start"]
            closes = [ev[1] for ev in log if ev[0] == "gen-close"]
            if sorted(starts) != sorted(closes) or len(set(closes)) != len(closes):
                ok = False
            if not tr.closed:
                ok = False
            if ("handler-closed",) in log:
                # once the handler closed the client no further generator is started on the dead connection
                after = log[log.index(("handler-closed",)) :]
                if any(ev[0] == "gen-start" for ev in after):
                    ok = False
            if log.count(("connected",)) != 1 or log.count(("disconnected",)) != 1:
                ok = False
            if st["bad_timeout"]:
                ok = False
            if timeout is None and ("timeout",) in log:
                ok = False
            if ("conn-timeout", None) in log:
                ok = False  # TimeoutError thrown into a generator that yielded None
            if respond and ok:
                sent = b""
                for piece in tr.sent:
                    sent = sent + piece
                exp = b""
                nresp = 0
                for idx, w in enumerate(want):
                    if w[0] == "req" and not (conn_gen and idx < int(conn_gen)):
                        exp = exp + w[1] + b"\n"
                if not (sent == exp):
                    ok = False
            if loop.exceptions:
                ok = False
            tags = []
            if len(starts) > 1:
                tags.append("generator-restart")
            if ("err",) in log:
                tags.append("parse-error")
            if ("timeout",) in log:
                tags.append("timeout")
            return Outcome(ok=ok, skeleton=[ev[0] for ev in log], tags=tuple(tags), detail={"log": log, "reference": want, "closed": tr.closed, "bad_timeout": st["bad_timeout"], "sent": list(tr.sent), "loop_exceptions": [str(c.get("message")) + repr(c.get("exception")) for c in loop.exceptions]})

    return scenario


def shards(tier: str):
    out = []
    quick = tier == "quick"
    B = 200 if quick else 1500

    def add(name, params, cost):
        out.append({"name": name, "scenario": "props.c15:serve", "params": params, "budget": B, "cost": cost, "per_path_timeout": 30})

    K = 4 if quick else 6
    shapes = [
        ("g1-tNone", dict(per_gen=1, timeout=None)),
        ("g2-tNone", dict(per_gen=2, timeout=None)),
        ("ginf-tNone", dict(per_gen=0, timeout=None)),
        ("ginf-t0", dict(per_gen=0, timeout=0)),
        ("g1-t0", dict(per_gen=1, timeout=0)),
        ("ginf-t5", dict(per_gen=0, timeout=5)),
        ("g1-conngen", dict(per_gen=1, timeout=None, conn_gen=1)),
        ("g1-conngen2", dict(per_gen=1, timeout=None, conn_gen=2)),
        ("ginf-close2", dict(per_gen=0, timeout=None, close_after=2)),
        ("g1-close1", dict(per_gen=1, timeout=None, close_after=1)),
        ("g1-close1-raises", dict(per_gen=1, timeout=None, close_after=1, close_raises=True)),
        ("hl-g1-close1", dict(per_gen=1, timeout=None, close_after=1, highlevel=True)),
        ("hl-g1-close1-raises", dict(per_gen=1, timeout=None, close_after=1, close_raises=True, highlevel=True)),
        ("hl-g2-tNone", dict(per_gen=2, timeout=None, highlevel=True)),
    ]
    for name, shape in shapes:
        frames = 3 if (name.startswith("g2") or name.endswith("close2") or name.endswith("conngen2") or not quick) else 2
        nev = 2 if (shape["timeout"] is None and shape.get("conn_gen") != 2) else 3
        for path in ("copy", "buf"):
            for pre in range(nev):
                add(f"serve/{name}/{path}/K{K}/pre{pre}", dict(frames=frames, K=K, path=path, prefix=[pre], **shape), cost=100 * nev**K)
    return out
