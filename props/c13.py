"""C13 - Cancel scopes interrupt on time, swallow only their own cancel, honour shields.

Real code: CancelScope, TaskUtils (cancel-shielded await), AsyncIOBackend.timeout / move_on_after / open_cancel_scope /
ignore_cancellation on the deterministic loop with real asyncio tasks and timers.
A *program descriptor* is decoded from solver-chosen values into a nest of 1..3 scopes
    kind      move_on_after(d) | timeout(d) | open_cancel_scope() cancelled explicitly at time c (by a timer) |
              open_cancel_scope() + reschedule(now + d) | a scope that is never cancelled
    body      (innermost) sleep(s1); [ignore_cancellation(sleep(s2))]; sleep(s3)      then, after each inner scope exits,
              a sleep(1) checkpoint in its parent; after the outermost scope a final sleep(1) outside every scope
plus an external task.cancel() at time x (or none).  All durations come from the grid {0,1,2,3,4} (every strict order and every
tie of up to four instants); they are concrete on each path (they reach asyncio's C timer heap).
Invariants asserted (directly from the statement, no tie-sensitive reference model):
  I1  no unshielded sleep that *starts* at or after the cancel instant of an enclosing scope completes, and none that spans it
      (ties at the very end of a sleep are allowed either way);
  I2  a scope whose body was abandoned either reports cancelled_caught() or an enclosing scope / the task was cancelled too;
  I3  a scope whose cancel_called() is false never reports cancelled_caught() and never swallows: with an external cancel
      delivered while the program was still running, the task ends cancelled;
  I4  timeout() raises TimeoutError exactly when its scope caught;
  I5  after the outermost scope exits, with no external cancel, the final checkpoint completes and task.cancelling() == 0;
  I6  a coroutine under ignore_cancellation runs to completion (full duration), and if a scope enclosing it was cancelled
      meanwhile, the next unshielded checkpoint inside that scope does not complete.
"""

from __future__ import annotations

import asyncio
import math

from sx.engine import Outcome

from .asyncenv import backend, loop_context

NONTRIVIAL_RULE = "at least one scope was cancelled while its body was running, or an external cancellation was delivered"
STUBS = ["DetLoop virtual clock (timers jump the clock); everything else is the real CancelScope/TaskUtils code and CPython's Task"]
ASSUMPTIONS = ["durations from the grid {0,1,2,3,4}", "scopes are entered immediately one inside the other at t = 0"]
BOUNDS = {"quick": "nesting <= 2 (and selected depth-3 programs), one optional external cancel", "thorough": "nesting 3 for all kinds"}
OUTSIDE = "trio backend, > 3 nested scopes, real time, task groups inside scopes"
HONEST = "choice-space exhaustion: every path is one concrete program + timing; the solver guarantees the bounded descriptor space is covered without gaps"

GRID = [0, 1, 2, 3, 4]
KINDS = ["move_on", "timeout", "manual", "reschedule", "never"]


def program(depth: int, kinds: list, shield: bool, external: bool, grid: list = (), body: int = 0):
    """body > 0: the innermost body is `body` solver-chosen statements from
    {sleep(0), sleep(1), cancel_shielded_coro_yield(), ignore_cancellation(sleep(1)), scopes[j].cancel() for each open scope j}
    instead of the fixed s1 / [shield s2] / s3 pattern (synchronous explicit cancels and shielded checkpoints)."""
    g = list(grid) or GRID

    def scenario(S):
        specs = []
        for i in range(depth):
            kind = kinds[i]
            d = S.pick(g, f"d{i}") if kind != "never" else None
            specs.append((kind, d))
        s1 = S.pick(g, "s1") if not body else 0
        s2 = (S.pick(g[1:], "s2") if shield else None) if not body else None
        s3 = S.pick(g, "s3") if not body else 0
        alphabet = ["sleep0", "sleep1", "shyield", "shsleep", "shfail"] + [f"cancel{j}" for j in range(depth)]
        stmts = [S.pick(alphabet, f"st{q}") for q in range(body)]
        x = S.pick([None] + g, "x") if external else None
        with loop_context() as loop:
            loop.busy_tick = 0.125  # a cancelled scope re-delivers its cancellation with call_soon on every iteration while a
            # shielded section runs: without time passing per busy iteration the virtual clock would never reach the timers
            be = backend()
            log = []  # (label, start, end|None, shielded, depth_inside)
            scopes = [None] * depth
            info = [dict(kind=k, T=d, caught=None, called=None, timeout_error=None, body_abandoned=None) for k, d in specs]
            st = {"final_done": False, "cancelling_end": None, "n": 0, "x_iter": None}
            cancel_iter = [None] * depth  # loop iteration in which scope i became cancelled
            exit_iter = [None] * depth

            async def nap(label, dur, inside, shielded=False):
                rec = [label, loop.time(), None, shielded, inside, st["n"], None]
                log.append(rec)
                await be.sleep(dur)
                rec[2] = loop.time()
                rec[6] = st["n"]

            async def failing(label, inside):
                # waits on a future that ends up FAILING with an ordinary exception (a different exit of the shielded await loop
                # than a coroutine that raises by itself)
                fut = loop.create_future()
                loop.call_later(1, fut.set_exception, ValueError("boom"))
                rec = [label, loop.time(), None, True, inside, st["n"], None]
                log.append(rec)
                try:
                    await fut
                finally:
                    rec[2] = loop.time()
                    rec[6] = st["n"]

            async def level(i):
                kind, d = specs[i]
                completed = False
                try:
                    if kind == "move_on":
                        cm = be.move_on_after(d)
                    elif kind == "timeout":
                        cm = be.timeout(d)
                    else:
                        cm = be.open_cancel_scope()
                    with cm as scope:
                        scopes[i] = scope
                        if kind == "manual":
                            loop.call_at(d, scope.cancel)
                        elif kind == "reschedule":
                            scope.reschedule(loop.time() + d)
                        if i + 1 < depth:
                            await level(i + 1)
                            await nap(f"after{i + 1}", 1, i + 1)
                        elif body:
                            for q, stx in enumerate(stmts):
                                if stx == "sleep0":
                                    await nap(f"b{q}", 0, depth)
                                elif stx == "sleep1":
                                    await nap(f"b{q}", 1, depth)
                                elif stx == "shyield":
                                    await be.cancel_shielded_coro_yield()
                                elif stx == "shsleep":
                                    await be.ignore_cancellation(nap(f"b{q}", 1, depth, shielded=True))
                                elif stx == "shfail":
                                    # a shielded coroutine that waits and then fails with an ordinary exception (handled by the caller)
                                    try:
                                        await be.ignore_cancellation(failing(f"b{q}", depth))
                                    except ValueError:
                                        pass
                                else:
                                    scopes[int(stx[6:])].cancel()
                        else:
                            await nap("s1", s1, depth)
                            if shield:
                                await be.ignore_cancellation(nap("s2", s2, depth, shielded=True))
                            await nap("s3", s3, depth)
                        completed = True
                except TimeoutError:
                    info[i]["timeout_error"] = True
                finally:
                    info[i]["body_abandoned"] = not completed
                    exit_iter[i] = st["n"]
                    info[i]["exit_time"] = loop.time()
                    sc = scopes[i]
                    if sc is not None:
                        info[i]["caught"] = sc.cancelled_caught()
                        info[i]["called"] = sc.cancel_called()

            async def main():
                await level(0)
                await nap("final", 1, 0)
                st["final_done"] = True
                st["cancelling_end"] = asyncio.current_task().cancelling()

            task = loop.create_task(main())

            def external_cancel():
                st["x_iter"] = st["n"]
                task.cancel()

            if x is not None:
                loop.call_at(x, external_cancel)
            for _ in range(1500):
                if task.done():
                    break
                st["n"] += 1
                loop.step()
                for i in range(depth):
                    if cancel_iter[i] is None and scopes[i] is not None and scopes[i].cancel_called():
                        cancel_iter[i] = st["n"]
            problems = []
            if not task.done():
                problems.append("program never finished")
                task.cancel()
                loop.run_until_idle(50)
            BIG = 10**9
            ci = [c if c is not None else BIG for c in cancel_iter]
            xi = st["x_iter"] if st["x_iter"] is not None else BIG
            # was some entered scope already cancelled (or being cancelled in the same iteration) when the external cancel arrived?
            # "a scope that was NOT cancelled never swallows": the external cancellation must propagate when every scope still open
            # at that moment stays un-cancelled until it exits (a scope that is or becomes cancelled before the cancellation is
            # delivered may legitimately catch at that checkpoint; which of the two pending requests wins is not constrained)
            ext_clean = st["x_iter"] is not None and not any(ci[k] != BIG and (exit_iter[k] is None or exit_iter[k] >= xi) for k in range(depth))
            for label, b, e, shielded, inside, it_b, it_e in log:
                if shielded:
                    if e is None and task.done() and not problems:
                        problems.append(f"I6: shielded {label} did not run to completion")
                    elif e is not None and label == "s2" and s2 is not None and e - b < s2:
                        problems.append(f"I6: shielded {label} lasted {e - b} instead of {s2}")
                    continue
                if e is None:
                    continue  # interrupted: fine
                for k in range(inside):
                    # the sleep resumed normally in an iteration strictly after the one in which scope k became cancelled
                    # (same iteration = tie, either way is allowed)
                    if it_e > ci[k]:
                        problems.append(f"I1: {label} [{b},{e}] completed (iteration {it_e}) inside scope {k} cancelled in iteration {ci[k]}")
                if ext_clean and it_e > xi:
                    problems.append(f"I3: {label} [{b},{e}] completed (iteration {it_e}) although the task was cancelled in iteration {xi}")
            for i, inf in enumerate(info):
                # I0: a deadline (or explicit cancel time) that passed while the scope was still open must have cancelled it
                if inf["T"] is not None and inf.get("exit_time") is not None and inf["exit_time"] > inf["T"] + 0.5 and not inf["called"]:
                    problems.append(f"I1: scope {i} ({inf['kind']}) was still running at {inf['exit_time']} although its deadline/cancel time {inf['T']} had passed, and it was never cancelled")
                if inf["called"] is False and inf["caught"]:
                    problems.append(f"I3: scope {i} reports cancelled_caught() without cancel_called()")
                if inf["kind"] == "timeout":
                    if bool(inf["timeout_error"]) != bool(inf["caught"]):
                        problems.append(f"I4: scope {i}: TimeoutError={inf['timeout_error']} but cancelled_caught={inf['caught']}")
                elif inf["timeout_error"]:
                    problems.append(f"I4: scope {i} is not a timeout() but TimeoutError escaped through it")
                if inf["body_abandoned"] and not inf["caught"]:
                    outer_cancelled = any(info[j]["called"] for j in range(i)) or st["x_iter"] is not None
                    if not outer_cancelled and not inf["timeout_error"]:
                        problems.append(f"I2: scope {i} body abandoned, not caught, and nothing enclosing was cancelled")
            if x is None:
                if not st["final_done"]:
                    problems.append("I5: the final checkpoint outside every scope did not complete (leftover cancellation)")
                elif st["cancelling_end"] != 0:
                    problems.append(f"I5: task.cancelling() == {st['cancelling_end']} after all scopes exited")
            else:
                if ext_clean and task.done() and not task.cancelled() and (st["final_done"] is False or st["x_iter"] is not None and st["x_iter"] < (log[-1][5] if log else 0)):
                    if not st["final_done"]:
                        problems.append("I3: external cancellation was swallowed (task did not end cancelled)")
                # (an external cancel arriving while an entered scope is already cancelled - or in the same iteration - is a
                #  tie / outside the statement: either outcome is accepted)
            if loop.exceptions:
                problems.append("loop exception: " + str(loop.exceptions[0].get("message")))
            tags = []
            if any(inf["called"] and inf["body_abandoned"] for inf in info):
                tags.append("scope-cancelled-body-running")
            if x is not None and not st["final_done"]:
                tags.append("external-cancel-delivered")
            return Outcome(ok=not problems, skeleton=([(inf["called"], inf["caught"], inf["body_abandoned"]) for inf in info], st["final_done"]), tags=tuple(tags), detail={"problems": problems, "scopes": info, "log": log, "external_cancel_at": x, "s": (s1, s2, s3)})

    return scenario


def inf_or(d):
    return math.inf if d is None else d


def shards(tier: str):
    import itertools

    out = []
    quick = tier == "quick"
    B = 200 if quick else 1500

    def add(name, params, cost):
        out.append({"name": name, "scenario": "props.c13:program", "params": params, "budget": B, "cost": cost, "per_path_timeout": 30})

    for k in KINDS:
        for shield in (False, True):
            for external in (False, True):
                add(f"d1/{k}/{'sh' if shield else 'nosh'}/{'ext' if external else 'noext'}", dict(depth=1, kinds=[k], shield=shield, external=external, grid=[0, 1, 2, 4] if (shield and external and quick) else []), cost=5**4)
    small = [0, 1, 3]
    for k0, k1 in itertools.product(KINDS, repeat=2):
        for shield in (False, True):
            for external in (False, True):
                if quick and external and shield:
                    continue
                add(f"d2/{k0}-{k1}/{'sh' if shield else 'nosh'}/{'ext' if external else 'noext'}", dict(depth=2, kinds=[k0, k1], shield=shield, external=external, grid=small if quick else []), cost=3**6)
    d3 = [("move_on", "never", "move_on"), ("timeout", "move_on", "timeout"), ("manual", "never", "timeout"), ("move_on", "timeout", "manual")]
    if not quick:
        d3 = list(itertools.product(["move_on", "timeout", "manual", "never"], repeat=3))
    for ks in d3:
        add(f"d3/{'-'.join(ks)}/sh/noext", dict(depth=3, kinds=list(ks), shield=True, external=False, grid=[0, 1, 2] if quick else small), cost=3**7)
    # statement-level programs: synchronous scope.cancel() calls and shielded checkpoints in solver-chosen order
    for ks in (["never"], ["never", "never"], ["never", "never", "never"], ["move_on", "never"], ["never", "timeout"]):
        nb = 3 if (quick or len(ks) == 3) else 4
        add(f"stmts/{'-'.join(ks)}/b{nb}", dict(depth=len(ks), kinds=ks, shield=False, external=False, grid=[1, 3], body=nb), cost=(4 + len(ks)) ** nb)
    # ... and with an external task.cancel() landing somewhere in the body (it must always get through un-cancelled scopes)
    for ks in (["never"], ["never", "never"]):
        add(f"stmts-ext/{'-'.join(ks)}/b3", dict(depth=len(ks), kinds=ks, shield=False, external=True, grid=[0, 1, 2], body=3), cost=(5 + len(ks)) ** 3 * 4)
    return out
