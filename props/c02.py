"""C02 - Parsing depends only on the bytes; a bad frame costs exactly one error.

Obligations (DESIGN.md section 4, C02):
  diff    arbitrary N-byte stream whose frames are safely within the limit: the chunked run of the
          real consumer (copying or buffer-filling, symbolic cuts / fill sizes) delivers exactly the
          reference frame-by-frame decoding (malformed frame = exactly one error, later frames intact).
  resume  stream = [F0 sep] JUNK sep F1 sep [F2 sep] with JUNK over the limit or right at it: the event
          sequence ends with exactly ref(F1, F2); what precedes is either the junk frame delivered whole
          (only possible when it sits in the band below the limit) or contains at least one error.
"""

from __future__ import annotations

from easynetwork.protocol import BufferedStreamProtocol, StreamProtocol
from easynetwork.serializers.line import StringLineSerializer

from sx.engine import Outcome

from . import streamlib as L

NONTRIVIAL_RULE = "a malformed frame, >1 frame, an unterminated tail, or a size rejection occurred on the path"
STUBS = ["RawSep: harness leaf serializer (identity payload, rejects payloads starting with 0x21) on the real AutoSeparatedPacketSerializer"]
ASSUMPTIONS = [
    "'safely within the limit' is len(payload) + 2*len(separator) + 1 <= limit (DESIGN C02)",
    "events attributable to the size-rejected frame itself are unconstrained beyond 'at least one error' (the statement does not constrain them)",
    "StringLineSerializer is exercised with encoding=ascii/strict (bytes >= 0x80 are the undecodable frames)",
]
BOUNDS = {
    "quick": "streams of 3..7 symbolic bytes, <=2 symbolic cuts (3 chunks), separators of 1 and 2 bytes, limits 6..13, both consumers, symbolic per-read fill sizes; resume: junk length L-S-2..L+S+2",
    "thorough": "streams up to 9 symbolic bytes, <=3 cuts, separators 1..3 bytes, more limits/size hints",
}
OUTSIDE = "longer streams, >4 chunks, file-based serializers (no separator), non-ascii encodings; JSON raw framing is covered for N <= 3..4 structural bytes only"


def _kind(kind: str, seplen: int, limit: int):
    """-> (serializer, sep, ref_decode(payload) -> ('pkt', value) | ('err', kind))"""
    if kind == "raw":
        sep = L.SEPS[seplen]
        ser = L.RawSep(sep, limit=limit)

        def dec(payload):
            if len(payload) > 0 and payload[0] == L.MARK:
                return ("err", "IncrementalDeserializeError")
            return ("pkt", payload)

        return ser, sep, dec
    if kind == "line":
        newline = {1: "LF", 2: "CRLF"}[seplen]
        ser = StringLineSerializer(newline, limit=limit, encoding="ascii")
        sep = ser.separator

        def dec(payload):
            for b in payload:
                if b >= 128:
                    return ("err", "IncrementalDeserializeError")
            return ("pkt", payload.decode("ascii"))

        return ser, sep, dec
    raise ValueError(kind)


def _run(ser, pieces, path, hint, fl):
    if path == "copy":
        ev, left = L.drive_copy(StreamProtocol(ser), pieces)
    else:
        ev, left, _mb = L.drive_buffered(BufferedStreamProtocol(ser), pieces, hint, fl)
    return ev


def _eq(a, b):
    if len(a) != len(b):
        return False
    for x, y in zip(a, b):
        if x[0] != y[0]:
            return False
        if not (x[1] == y[1]):
            return False
    return True


def diff(N: int, seplen: int, limit: int, cuts: int, path: str, kind: str = "raw", hint: int = 4, fills: int = 0):
    def scenario(S):
        ser, sep, dec = _kind(kind, seplen, limit)
        stream = S.bytes(N, "d")
        cs = L.sorted_cuts(S, cuts, N)
        fl = [S.int(1, 3, f"fill{i}") for i in range(fills)] if fills else None
        margin = limit - 2 * seplen - 1
        ref = []
        ntail = 0
        for payload, terminated in L.ref_frames(stream, sep):
            S.assume(len(payload) <= margin)
            if terminated:
                ref.append(dec(payload))
            else:
                ntail = len(payload)
        try:
            ev = _run(ser, L.split_at(stream, cs), path, hint, fl)
        except Exception as e:  # noqa: BLE001  anything but a parse error escaping the consumer
            return Outcome(ok=False, skeleton=("exc", type(e).__name__), tags=("exception",), detail={"exception": repr(e), "ref": ref})
        ok = _eq(ev, ref)
        tags = []
        if any(k == "err" for k, _ in ref):
            tags.append("malformed-frame")
        if len(ref) >= 2:
            tags.append("multi-frame")
        if ntail > 0:
            tags.append("tail")
        return Outcome(ok=ok, skeleton=L.skel(ev), tags=tuple(tags), detail={"events": ev, "reference": ref})

    return scenario


def resume(pre: int, J: int, post: list, seplen: int, limit: int, cuts: int, path: str, kind: str = "raw", hint: int = 4, fills: int = 0, strict: bool = False):
    """pre = length of a leading safe frame F0 (or -1 for none); J = junk length; post = lengths of the safe frames after it."""

    def scenario(S):
        ser, sep, dec = _kind(kind, seplen, limit)
        margin = limit - 2 * seplen - 1
        parts = []
        lens = []
        if pre >= 0:
            assert pre <= margin
            parts.append(S.bytes(pre, "f0_"))
            lens.append(pre)
        junk = S.bytes(J, "j")
        parts.append(junk)
        lens.append(J)
        for i, n in enumerate(post):
            assert n <= margin
            parts.append(S.bytes(n, f"p{i}_"))
            lens.append(n)
        stream = b""
        for p in parts:
            stream = stream + p + sep
        total = len(stream)
        # assumption: the frame structure is exactly the intended one (no separator inside a part)
        fr = L.ref_frames(stream, sep)
        S.assume(len(fr) == len(parts) + 1)
        for (payload, _t), n in zip(fr, lens):
            S.assume(len(payload) == n)
        cs = L.sorted_cuts(S, cuts, total)
        fl = [S.int(1, 3, f"fill{i}") for i in range(fills)] if fills else None
        ref_pre = [dec(parts[0])] if pre >= 0 else []
        ref_post = [dec(p) for p in parts[(2 if pre >= 0 else 1) :]]
        junk_ref = dec(junk)
        try:
            ev = _run(ser, L.split_at(stream, cs), path, hint, fl)
        except Exception as e:  # noqa: BLE001
            return Outcome(ok=False, skeleton=("exc", type(e).__name__), tags=("exception",), detail={"exception": repr(e)})
        k = len(ref_post)
        npre = len(ref_pre)
        ok = len(ev) >= npre + k and _eq(ev[:npre], ref_pre) and _eq(ev[len(ev) - k :], ref_post)
        mid = ev[npre : len(ev) - k] if ok else []
        rejected = False
        if ok:
            nerr = 0
            for kk, vv in mid:
                if kk == "err" and vv == "LimitOverrunError":
                    nerr += 1
            rejected = nerr > 0
            if rejected and strict:
                # strict reading (known finding F-C02b): the rejected frame surfaces as errors only
                for kk, vv in mid:
                    if kk != "err":
                        ok = False
            if not rejected:
                # no size rejection: the junk frame must then have been handled like any frame, exactly once
                ok = _eq(mid, [junk_ref])
        tags = ["size-rejected" if rejected else "junk-accepted"]
        return Outcome(ok=ok, skeleton=L.skel(ev), tags=tuple(tags), detail={"events": ev, "expected_suffix": ref_post, "expected_prefix": ref_pre, "stream_len": total})

    return scenario


class _EchoDecoder:
    """stands for json.JSONDecoder.decode in the JSON *framing* obligation: returns the document text without surrounding
    whitespace (so that what is compared is how raw_parse splits the stream), rejects documents starting with '!'"""

    def decode(self, document):
        from json import JSONDecodeError

        d = document.strip(" \t\n\r")
        if len(d) > 0 and d[0] == "!":
            raise JSONDecodeError("stub", "", 0)
        return d


JSON_ALPHABET = (0x5B, 0x5D, 0x22, 0x5C, 0x20, 0x31, 0x7B, 0x7D)  # [ ] " \ space 1 { }


def ref_json_frames(stream):
    """Reference framing of JSONSerializer(use_lines=False), written from its documented rule (independent of raw_parse):
    whitespace between documents is skipped; a document that starts with a quote ends with the next unescaped quote; a document
    that starts with '{' or '[' ends with the bracket that brings the count of THAT bracket kind back to zero (brackets inside
    strings do not count; a quote is escaped by an odd number of backslashes before it); a stray closing bracket is a one-byte
    (malformed) document.  Plain values (numbers, literals) are outside this reference: it stops there.
    Returns (list of document byte strings without surrounding whitespace, fully_framed: bool)."""
    WS = (0x20, 0x09, 0x0A, 0x0D)
    frames = []
    i = 0
    n = len(stream)
    while True:
        k = i
        while k < n and stream[k] in WS:
            k += 1
        if k >= n:
            return frames, True
        c = stream[k]
        if c == 0x22:
            first = 0x22
        elif c == 0x7B or c == 0x7D:
            first = 0x7B
        elif c == 0x5B or c == 0x5D:
            first = 0x5B
        else:
            return frames, False
        cnt = {0x7B: 0, 0x5B: 0}
        in_str = False
        end = -1
        j = k
        while j < n:
            ch = stream[j]
            quote = False
            if ch == 0x22:
                nb = 0
                t = j - 1
                while t >= i and stream[t] == 0x5C:
                    nb += 1
                    t -= 1
                quote = nb % 2 == 0
            if quote:
                in_str = not in_str
                if first == 0x22 and not in_str:
                    end = j
                    break
            elif in_str:
                pass
            elif ch == 0x7B or ch == 0x5B:
                cnt[ch] += 1
            elif ch == 0x7D or ch == 0x5D:
                cnt[0x7B if ch == 0x7D else 0x5B] -= 1
                if first != 0x22 and cnt[first] <= 0:
                    end = j
                    break
            j += 1
        if end < 0:
            return frames, True  # unterminated tail: stays pending, no event
        frames.append(stream[k : end + 1])
        e = end + 1
        while e < n and stream[e] in WS:
            e += 1
        i = e


def _same_text(text, raw):
    if len(text) != len(raw):
        return False
    for t in range(len(raw)):
        if ord(text[t]) != raw[t]:
            return False
    return True


def jsonraw(N: int, cuts: int, first: int = -1, limit: int = 64):
    """JSONSerializer(use_lines=False): _JSONParser.raw_parse (bracket / quote / escape tracking, plain values, whitespace
    handling) over N symbolic bytes from the JSON structural alphabet: feeding the stream in pieces yields the same packets and
    errors as feeding it at once (the limit is far away: every frame is safely within it)."""
    from easynetwork.serializers.json import JSONSerializer

    def mk():
        ser = JSONSerializer(use_lines=False, limit=limit)
        ser._JSONSerializer__decoder = _EchoDecoder()
        return ser

    def scenario(S):
        stream = S.bytes_in(N, JSON_ALPHABET, "d")
        if first >= 0:
            S.assume(stream[0] == JSON_ALPHABET[first])
        cs = L.sorted_cuts(S, cuts, N)
        try:
            whole, _l1 = L.drive_copy(StreamProtocol(mk()), [stream])
            pieces, _l2 = L.drive_copy(StreamProtocol(mk()), L.split_at(stream, cs))
        except Exception as e:  # noqa: BLE001
            return Outcome(ok=False, skeleton=("exc", type(e).__name__), tags=("exception",), detail={"exception": repr(e)})
        ok = _eq(whole, pieces)
        # ... and both equal reference framing (as far as the reference goes: it stops at a plain value)
        frames, full = ref_json_frames(stream)
        if ok:
            if len(whole) < len(frames) or (full and len(whole) != len(frames)):
                ok = False
            else:
                for ev, fr in zip(whole, frames):
                    if ev[0] != "pkt" or not _same_text(ev[1], fr):
                        ok = False
        tags = []
        if len(whole) >= 2:
            tags.append("multi-frame")
        if any(k == "err" for k, _ in whole):
            tags.append("malformed-frame")
        return Outcome(ok=ok, skeleton=(L.skel(whole), L.skel(pieces)), tags=tuple(tags), detail={"one_shot": whole, "chunked": pieces})

    return scenario


def shards(tier: str):
    out = []

    def add(name, scenario, params, budget, cost=None):
        out.append({"name": name, "scenario": f"props.c02:{scenario}", "params": params, "budget": budget, "cost": cost or budget})

    quick = tier == "quick"
    B = 150 if quick else 1200
    # ---- obligation 1: differential vs. reference ------------------------------------
    if quick:
        plan = [("raw", 1, (4, 5)), ("raw", 2, (5, 6)), ("raw", 3, (5, 6)), ("line", 1, (4,)), ("line", 2, (4, 5))]
    else:
        plan = [("raw", 1, (4, 5, 6, 7)), ("raw", 2, (5, 6, 7, 8)), ("raw", 3, (6, 7, 8)), ("line", 1, (4, 5, 6)), ("line", 2, (4, 5, 6, 7))]
    for kind, seplen, sizes in plan:
        for path in ("copy", "buf"):
            for N in sizes:
                limit = N + 2 * seplen + 1  # every frame of the stream can be 'safe'
                add(f"diff/{kind}/S{seplen}/{path}/N{N}", "diff", dict(N=N, seplen=seplen, limit=limit, cuts=2, path=path, kind=kind, hint=3), B, cost=(6 - seplen) ** N)
    if not quick:
        for path in ("copy", "buf"):
            add(f"diff/raw/S2/{path}/N6c3", "diff", dict(N=6, seplen=2, limit=11, cuts=3, path=path, kind="raw", hint=2), B, cost=5**7)
            add(f"diff/raw/S2/{path}/N6L20", "diff", dict(N=6, seplen=2, limit=20, cuts=2, path=path, kind="raw", hint=2), B, cost=5**6)
    # ---- JSON raw framing: chunked == one-shot over symbolic structural bytes --------------
    for first in range(len(JSON_ALPHABET)):
        add(f"jsonraw/N{3 if quick else 4}/first{first}", "jsonraw", dict(N=3 if quick else 4, cuts=1, first=first), B, cost=8**3)
    # ---- obligation 2: size rejection and resumption ------------------------------------
    for seplen in (1, 2) if quick else (1, 2, 3):
        limit = 2 * seplen + 4  # margin = 3
        for path in ("copy", "buf"):
            for J in range(limit - seplen - 2, limit + seplen + 3):
                pres = (-1,) if quick else (-1, 2)
                for pre in pres:
                    add(
                        f"resume/raw/S{seplen}/{path}/L{limit}/J{J}/pre{pre}",
                        "resume",
                        dict(pre=pre, J=J, post=[1] if quick else [1, 0], seplen=seplen, limit=limit, cuts=1 if (quick and J >= limit + 2) else 2, path=path, kind="raw", hint=3),
                        B,
                        cost=3 ** (J + pre + 3),
                    )
    # ---- obligation 2, strict reading where the current tree satisfies it -----------------------------------------
    # With strict=True NOTHING attributable to the rejected frame may surface (no phantom packet made of its tail or of its
    # terminator).  The open finding F-C02b is exactly the region where the pinned tree does not satisfy this (frames that
    # exceed the limit before their terminator was seen: copy path J > L, buffered path J >= L - S).  Below that region - frames
    # right at the limit included - the strict reading holds today and is checked, so a change that extends the F-C02b
    # behaviour to at-the-limit frames (e.g. a rejection raised while half of the terminator is buffered) is reported.
    for seplen in (1, 2, 3):
        limit = 2 * seplen + 4
        copy_js = range(limit - seplen - 2, limit + 1) if not quick else (limit - 1, limit)
        buf_js = range(limit - seplen - 2, limit - seplen) if not quick else (limit - seplen - 1,)
        for path, js in (("copy", copy_js), ("buf", buf_js)):
            for J in js:
                add(f"resume-strict/raw/S{seplen}/{path}/L{limit}/J{J}", "resume", dict(pre=-1, J=J, post=[1], seplen=seplen, limit=limit, cuts=2, path=path, kind="raw", hint=3, strict=True), B, cost=3 ** (J + 3))
    # a leading frame leaves stale bytes in the serializer-owned buffer: band values only in quick
    if quick:
        for seplen, limit in ((2, 8),):
            for J in (limit - seplen, limit - 1):
                add(f"resume/raw/S{seplen}/buf/L{limit}/J{J}/pre2", "resume", dict(pre=2, J=J, post=[1], seplen=seplen, limit=limit, cuts=1, path="buf", kind="raw", hint=3), B, cost=3 ** (J + 5))
    else:
        for path in ("copy", "buf"):
            for J in (6, 7, 8, 9, 10, 11, 14):
                add(f"resume/line/S2/{path}/L10/J{J}", "resume", dict(pre=3, J=J, post=[2], seplen=2, limit=10, cuts=2, path=path, kind="line", hint=4), B)
    return out
