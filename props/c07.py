"""C07 - Receive buffering is bounded by the configured limit.

Obligations:
  bound   a peer sends N bytes that never complete a frame, in reads of <= R bytes (symbolic cut positions):
          at every moment the bytes the receiver may still be holding (what is left after the last limit error +
          everything fed since) is <= L + R + S; the serializer-owned buffer never exceeds max(L, hint).
  accept  a frame whose payload is safely under the limit (len + 2S + 1 <= L, including exactly at that margin)
          followed by its terminator is delivered, never rejected, for every chunking and both receive paths.
"""

from __future__ import annotations

from easynetwork.exceptions import StreamProtocolParseError
from easynetwork.protocol import BufferedStreamProtocol, StreamProtocol
from easynetwork.serializers.base_stream import FileBasedPacketSerializer
from easynetwork.serializers.json import JSONSerializer
from easynetwork.serializers.line import StringLineSerializer

from sx.engine import Outcome

from . import streamlib as L

NONTRIVIAL_RULE = "a limit error was raised on the path (bound) / the frame sits exactly at the safe margin or spans several reads (accept)"
STUBS = [
    "RawSep: harness leaf serializer on the real AutoSeparatedPacketSerializer",
    "NeverFile: FileBasedPacketSerializer subclass whose load_from_file always raises EOFError (a frame that never completes)",
]
ASSUMPTIONS = [
    "'limit plus one read and one separator' = L + R + S bytes where R is the largest single read",
    "'safely under the limit' = len(payload) + 2*len(separator) + 1 <= limit",
    "file-based obligation uses concrete filler bytes (contents are irrelevant to a load that never completes; BytesIO would realise symbolic bytes) with symbolic read sizes",
]
BOUNDS = {
    "quick": "limits 4..8, reads R<=3, separators 1..2 bytes, N <= L+R+S+2 symbolic bytes without terminator, <=3 symbolic cuts, both consumers; StringLine/JSON-lines/JSON-raw/file-based variants",
    "thorough": "limits up to 10, separator 3, more cuts",
}
OUTSIDE = "the 64 KiB default limit itself (scaled down; no constant in the scanners depends on the magnitude), compressed/base64 wrappers (delegate to the same scanners)"


class NeverFile(FileBasedPacketSerializer):
    __slots__ = ()

    def __init__(self, limit, expected=(ValueError,)):
        super().__init__(expected_load_error=expected, limit=limit)

    def dump_to_file(self, packet, file):
        file.write(packet)

    def load_from_file(self, file):
        file.read()
        raise EOFError


def _make(kind, seplen, limit):
    if kind == "raw":
        return L.RawSep(L.SEPS[seplen], limit=limit), L.SEPS[seplen]
    if kind == "line":
        s = StringLineSerializer({1: "LF", 2: "CRLF"}[seplen], limit=limit, encoding="latin-1")
        return s, s.separator
    if kind == "jsonl":
        return JSONSerializer(limit=limit, use_lines=True), b"\n"
    if kind == "jsonraw":
        return JSONSerializer(limit=limit, use_lines=False), b""
    if kind == "file":
        return NeverFile(limit), b""
    if kind == "filebroad":
        return NeverFile(limit, expected=(Exception,)), b""
    raise ValueError(kind)


def bound(kind: str, N: int, seplen: int, limit: int, R: int, cuts: int, path: str, hint: int = 3):
    def scenario(S):
        ser, sep = _make(kind, seplen, limit)
        if kind in ("file", "filebroad"):
            stream = b"\x01" * N
        elif kind == "jsonraw":
            # a document that never completes: only '[' and the JSON whitespace ' ' / LF (never a closing
            # bracket, a quote or a plain value), in any order - includes the whitespace-only stream
            stream = S.bytes_in(N, (0x5B, 0x20, 0x0A), "d")
        else:
            stream = S.bytes(N, "d")
        if kind in ("raw", "line", "jsonl"):
            S.assume(stream.find(sep) < 0)
        cs = L.sorted_cuts(S, cuts, N)
        prev = 0
        for c in cs + [N]:
            S.assume(c - prev <= R)
            prev = c
        pieces = L.split_at(stream, cs)
        seplen_eff = len(sep)
        budget = limit + R + seplen_eff
        state = {"held": 0, "worst": 0, "errs": 0, "pkts": 0}

        def classify(e: StreamProtocolParseError):
            state["errs"] += 1
            state["held"] = len(bytes(e.remaining_data))
            return type(e.error).__name__

        ok = True
        maxbuf = 0
        try:
            if path == "copy":
                from easynetwork.lowlevel._stream import StreamDataConsumer

                c = StreamDataConsumer(StreamProtocol(ser))
                ev: list = []
                for ch in pieces:
                    n = len(ch)
                    if n > 0:
                        state["held"] = state["held"] + n
                        L._drain(c, ch, ev, classify)
                        if state["held"] > budget:
                            ok = False
                        if state["held"] > state["worst"]:
                            state["worst"] = state["held"]
            else:
                from easynetwork.lowlevel._stream import BufferedStreamDataConsumer

                c = BufferedStreamDataConsumer(BufferedStreamProtocol(ser), hint)
                ev = []
                for ch in pieces:
                    pos = 0
                    total = len(ch)
                    while pos < total:
                        L._drain(c, None, ev, classify)
                        with memoryview(c.get_write_buffer()) as view:
                            n = total - pos
                            if len(view) < n:
                                n = len(view)
                            view[:n] = ch[pos : pos + n]
                        pos += n
                        if c.buffer_size > maxbuf:
                            maxbuf = c.buffer_size
                        state["held"] = state["held"] + n
                        L._drain(c, n, ev, classify)
                        if state["held"] > budget:
                            ok = False
                        if state["held"] > state["worst"]:
                            state["worst"] = state["held"]
                if maxbuf > max(limit, hint):
                    ok = False
        except Exception as e:  # noqa: BLE001
            return Outcome(ok=False, skeleton=("exc", type(e).__name__), tags=("exception",), detail={"exception": repr(e)})
        for k, _v in ev:
            if k == "pkt":
                ok = False  # nothing in this stream is a complete frame
        tags = ("limit-error",) if state["errs"] else ()
        return Outcome(
            ok=ok,
            skeleton=(L.skel(ev), state["worst"], maxbuf),
            tags=tags,
            detail={"events": L.skel(ev), "worst_held": state["worst"], "budget": budget, "max_buffer_size": maxbuf, "limit": limit},
        )

    return scenario


def accept(kind: str, P: int, seplen: int, limit: int, cuts: int, path: str, pre: int = -1, hint: int = 3):
    """payload of P <= L-2S-1 symbolic bytes + separator (optionally after a leading frame): delivered, never rejected."""

    def scenario(S):
        ser, sep = _make(kind, seplen, limit)
        assert P + 2 * len(sep) + 1 <= limit
        lead = S.bytes(pre, "f") if pre >= 0 else None
        payload = S.bytes(P, "p")
        # a valid packet for separator framing: the FIRST occurrence of the separator in payload+separator is the appended one
        # (with a multi-byte separator a payload ending with a proper prefix of it, e.g. 00 ff before 00 ff 00, is not valid)
        S.assume((payload + sep).find(sep) == P)
        stream = payload + sep
        nlead = 0
        if lead is not None:
            S.assume((lead + sep).find(sep) == pre)
            stream = lead + sep + stream
            nlead = 1
        fr = L.ref_frames(stream, sep)
        S.assume(len(fr) == 2 + nlead)
        cs = L.sorted_cuts(S, cuts, len(stream))
        pieces = L.split_at(stream, cs)
        try:
            if path == "copy":
                ev, _left = L.drive_copy(StreamProtocol(ser), pieces)
            else:
                ev, _left, _mb = L.drive_buffered(BufferedStreamProtocol(ser), pieces, hint)
        except Exception as e:  # noqa: BLE001
            return Outcome(ok=False, skeleton=("exc", type(e).__name__), tags=("exception",), detail={"exception": repr(e)})
        ok = len(ev) == 1 + nlead
        for k, v in ev:
            if k == "err" and v == "LimitOverrunError":
                ok = False
        if ok and kind == "raw":
            k, v = ev[-1]
            marked = P > 0 and payload[0] == L.MARK
            ok = (k == "err") if marked else (k == "pkt" and v == payload)
        tags = ["at-margin"] if P + 2 * len(sep) + 1 == limit else []
        if cuts:
            tags.append("chunked")
        return Outcome(ok=ok, skeleton=L.skel(ev), tags=tuple(tags), detail={"events": ev, "payload_len": P, "limit": limit})

    return scenario


JSON_DOCS = [b'{"a":1}', b"[1,2]", b'"x y"', b"[[],{}]", b'{"k":[]}']


def accept_json(mode: str, limit: int, order: list, cuts: int):
    """JSON documents that are each safely under the limit (len + 2 <= limit), pipelined so that the whole stream is much longer
    than the limit, cut at solver-chosen positions: every document is delivered, none is rejected for its size.
    (json's C decoder: the documents come from a fixed corpus, the chunking is the solver's.)"""

    def scenario(S):
        ser = JSONSerializer(limit=limit, use_lines=(mode == "jsonl"))
        docs = [JSON_DOCS[i % len(JSON_DOCS)] for i in order]
        for d in docs:
            assert len(d) + 2 <= limit
        tail = b"\n" if mode == "jsonl" else b""
        stream = b"".join(d + tail for d in docs)
        assert len(stream) > 2 * limit
        cs = L.sorted_cuts(S, cuts, len(stream))
        pieces = L.split_at(stream, cs)
        try:
            ev, _left = L.drive_copy(StreamProtocol(ser), pieces)
        except Exception as e:  # noqa: BLE001
            return Outcome(ok=False, skeleton=("exc", type(e).__name__), tags=("exception",), detail={"exception": repr(e)})
        import json as _json

        want = [_json.loads(d) for d in docs]
        ok = len(ev) == len(want)
        if ok:
            for (k, v), w in zip(ev, want):
                if k != "pkt" or v != w:
                    ok = False
        tags = ["at-margin"] if any(len(d) + 2 == limit for d in docs) else []
        if cuts:
            tags.append("chunked")
        return Outcome(ok=ok, skeleton=L.skel(ev), tags=tuple(tags), detail={"events": ev, "documents": docs, "limit": limit})

    return scenario


def shards(tier: str):
    out = []
    quick = tier == "quick"
    B = 150 if quick else 1200

    def add(name, fn, params, cost):
        out.append({"name": name, "scenario": f"props.c07:{fn}", "params": params, "budget": B, "cost": cost})

    # ---- bound ------------------------------------------------------------------------
    for kind, seplens in (("raw", (1, 2) if quick else (1, 2, 3)), ("line", (2,)), ("jsonl", (1,))):
        for seplen in seplens:
            for limit in (4,) if quick else (4, 6, 8):
                for R in (2, 3):
                    N = limit + R + seplen + 2
                    ncuts = -(-N // R) - 1  # minimum number of cuts so that every read is <= R
                    for path in ("copy", "buf"):
                        if kind == "jsonl" and path == "buf":
                            continue  # JSONSerializer has no buffered interface
                        if quick and kind != "raw" and R == 3:
                            continue
                        add(f"bound/{kind}/S{seplen}/L{limit}/R{R}/{path}", "bound", dict(kind=kind, N=N, seplen=seplen, limit=limit, R=R, cuts=ncuts + (0 if quick else 1), path=path), cost=2**N)
    for kind in ("file", "filebroad"):
        for limit, R, hint in ((4, 2, 3), (5, 3, 8)) if quick else ((4, 2, 3), (5, 3, 8), (8, 3, 3), (8, 4, 16)):
            N = limit + R + 3
            ncuts = -(-N // R) - 1
            for path in ("copy", "buf"):
                add(f"bound/{kind}/L{limit}/R{R}/h{hint}/{path}", "bound", dict(kind=kind, N=N, seplen=0, limit=limit, R=R, cuts=ncuts + 1, path=path, hint=hint), cost=2**N)
    for limit, R in ((2, 2),) if quick else ((2, 2), (3, 2), (4, 3)):
        N = limit + R + 2
        ncuts = -(-N // R) - 1
        add(f"bound/jsonraw/L{limit}/R{R}/copy", "bound", dict(kind="jsonraw", N=N, seplen=0, limit=limit, R=R, cuts=ncuts, path="copy"), cost=3**N)
    # ---- accept -----------------------------------------------------------------------
    for kind in ("raw", "line"):
        for seplen in (1, 2) if (quick or kind == "line") else (1, 2, 3):
            for limit in ((2 * seplen + 4,) if quick else (2 * seplen + 4, 2 * seplen + 6)):
                margin = limit - 2 * seplen - 1
                for P in (margin,) if quick else (margin, margin - 1):
                    for path in ("copy", "buf"):
                        add(f"accept/{kind}/S{seplen}/L{limit}/P{P}/{path}", "accept", dict(kind=kind, P=P, seplen=seplen, limit=limit, cuts=2, path=path), cost=3 ** (P + 2))
                        add(f"accept/{kind}/S{seplen}/L{limit}/P{P}/{path}/pre", "accept", dict(kind=kind, P=P, seplen=seplen, limit=limit, cuts=2 if quick else 3, path=path, pre=margin), cost=3 ** (P + margin + 3))
    # JSON (line and raw mode): pipelined documents, each safely under the limit, stream much longer than the limit
    for mode in ("jsonl", "jsonraw"):
        for limit, order in ((9, [0, 1, 2, 0]), (10, [3, 4, 0, 1])) if quick else ((9, [0, 1, 2, 0]), (10, [3, 4, 0, 1]), (12, [4, 3, 2, 1, 0])):
            add(f"accept/{mode}/L{limit}/{'-'.join(map(str, order))}", "accept_json", dict(mode=mode, limit=limit, order=order, cuts=2), cost=400)
    return out
