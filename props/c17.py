"""C17 - One client's failure (handler or connection set-up) never affects the others.

Real code: AsyncTCPNetworkServer (__client_initializer, __suppress_and_log_remaining_exception, _ConnectedClientAPI),
build_lowlevel_stream_server_handler (all hook positions), AsyncStreamServer client coroutine / task-group wiring;
AsyncUDPNetworkServer (_ClientContext.__aexit__), build_lowlevel_datagram_server_handler, AsyncDatagramServer - on the
deterministic loop over in-memory listeners.
One client is faulty: a solver-chosen exception class is raised at a solver-chosen hook position (on_connection before/after an
await, handle() before the first yield / after a request / while handling a thrown parse error, on_disconnection), or its
connection is reset right after being accepted (first read raises ConnectionResetError).  A healthy client exchanges requests at
the same time; a solver-chosen schedule interleaves loop iterations and the two clients' traffic.
Asserted: the server task is still running and no exception reached the event loop; the healthy client receives every response;
TCP: the faulty transport is closed and on_disconnection ran iff on_connection completed; UDP: a later datagram from the faulty
address starts a fresh generator and is handled.
listener-setup shards: the real asyncio ListenerSocketAdapter.serve() with an accepted-socket factory whose connect() fails with a
solver-chosen exception class (reset, ENOTCONN, EINVAL, EBADF, SSLError, TimeoutError, ValueError, group) for faulty connections:
serve() keeps running, every healthy connection (also a later one) reaches the handler, faulty sockets are closed.
"""

from __future__ import annotations

import logging

from easynetwork.exceptions import ClientClosedError, DatagramProtocolParseError, StreamProtocolParseError
from easynetwork.protocol import DatagramProtocol, StreamProtocol
from easynetwork.servers.async_tcp import AsyncTCPNetworkServer
from easynetwork.servers.async_udp import AsyncUDPNetworkServer
from easynetwork.servers.handlers import AsyncDatagramRequestHandler, AsyncStreamRequestHandler

from sx.engine import Outcome

from . import streamlib as L
from .asyncenv import MemServerBackend, MemStreamTransport, loop_context

NONTRIVIAL_RULE = "the fault fired while the healthy client still had traffic pending"
STUBS = ["DetLoop; MemServerBackend (in-memory TCP / UDP listeners); MemStreamTransport clients; logging disabled", "listener-setup: real ListenerSocketAdapter over an unbound real socket object, loop.sock_accept answered from a scripted queue, accepted-socket factory raising a solver-chosen exception class"]
ASSUMPTIONS = ["'exception of any class' = Exception subclasses and exception groups of them (KeyboardInterrupt/SystemExit are outside)", "TLS handshake failures are outside (real OpenSSL)"]
BOUNDS = {"quick": "one faulty + one healthy client, 7 exception classes x 6 hook positions (+ reset after accept), K <= 3 schedule events; listener set-up faults: 8 exception classes x 0/1 suspensions x K <= 4 accept/step events", "thorough": "K <= 5 (listener set-up: 6)"}
OUTSIDE = "real listening sockets / kernel RST, real TLS handshakes (the listener scenario raises ssl.SSLError / TimeoutError from the accepted-socket factory instead), standalone (threaded) servers"


def _exc(kind: str):
    if kind == "value":
        return ValueError("boom")
    if kind == "group":
        return ExceptionGroup("g", [ValueError("boom")])
    if kind == "conn":
        return ConnectionResetError(104, "reset")
    if kind == "closed":
        return ClientClosedError("closed")
    if kind == "timeout":
        return TimeoutError("t")
    if kind == "mixed":
        return ExceptionGroup("m", [ClientClosedError("closed"), ValueError("boom")])
    if kind == "conngroup":
        return ExceptionGroup("c", [ConnectionResetError(104, "reset"), ClientClosedError("closed")])
    raise ValueError(kind)


EXC_KINDS = ["value", "group", "conn", "closed", "timeout", "mixed", "conngroup"]
TCP_POSITIONS = ["parse-error-after-valid", "conn-before", "conn-after", "handle-before-yield", "handle-after-request", "handle-in-except", "disconnect", "reset-after-accept", "no-peername", "reraise-parse-error", "yield-invalid-timeout", "peer-error-after-request"]
UDP_POSITIONS = ["handle-before-yield", "handle-after-request", "handle-in-except", "reraise-parse-error", "yield-invalid-timeout"]


class TcpHandler(AsyncStreamRequestHandler):
    def __init__(self, be, log, position, make_exc):
        self.be = be
        self.log = log
        self.position = position
        self.make_exc = make_exc
        self.faulty = None  # the first connected client is the faulty one

    def is_faulty(self, client):
        return client is self.faulty

    async def on_connection(self, client):
        if self.faulty is None:
            self.faulty = client
        who = "F" if self.is_faulty(client) else "H"
        if who == "F" and self.position == "conn-before":
            raise self.make_exc()
        await self.be.coro_yield()
        if who == "F" and self.position == "conn-after":
            raise self.make_exc()
        self.log.append(("connected", who))

    async def on_disconnection(self, client):
        who = "F" if self.is_faulty(client) else "H"
        self.log.append(("disconnected", who))
        if who == "F" and self.position == "disconnect":
            raise self.make_exc()

    async def handle(self, client):
        who = "F" if self.is_faulty(client) else "H"
        if who == "F" and self.position == "handle-before-yield":
            raise self.make_exc()
        try:
            # a handler that yields an invalid timeout (NaN) is a handler failure like any other
            req = yield (float("nan") if (who == "F" and self.position == "yield-invalid-timeout") else None)
        except StreamProtocolParseError:
            if who == "F" and self.position == "handle-in-except":
                raise self.make_exc()
            if who == "F" and self.position == "reraise-parse-error":
                raise
            return
        except GeneratorExit:
            raise
        except BaseException as e:  # noqa: BLE001
            self.log.append(("thrown", who, type(e).__name__))
            raise
        self.log.append(("req", who, req))
        await client.send_packet(req)
        if who == "F" and self.position == "handle-after-request":
            raise self.make_exc()


class UdpHandler(AsyncDatagramRequestHandler):
    def __init__(self, be, log, position, make_exc):
        self.be = be
        self.log = log
        self.position = position
        self.make_exc = make_exc
        self.fired = False

    async def handle(self, client):
        from easynetwork.servers.handlers import INETClientAttribute

        who = client.extra(INETClientAttribute.remote_address).host
        self.log.append(("gen-start", who))
        armed = who == "F" and not self.fired
        if armed and self.position == "handle-before-yield":
            self.fired = True
            raise self.make_exc()
        try:
            if armed and self.position == "yield-invalid-timeout":
                self.fired = True
                yield None
                req = yield float("nan")
            else:
                req = yield None
        except DatagramProtocolParseError:
            if armed and self.position == "handle-in-except":
                self.fired = True
                raise self.make_exc()
            if armed and self.position == "reraise-parse-error":
                self.fired = True
                raise
            return
        self.log.append(("req", who, req))
        await client.send_packet(req)
        if armed and self.position == "handle-after-request":
            self.fired = True
            raise self.make_exc()


def tcp(position: str, K: int, prefix: list = (), path: str = "copy"):
    def scenario(S):
        kind = S.pick(EXC_KINDS, "exc")
        with loop_context() as loop:
            be = MemServerBackend(listener_delay=0)
            log = []
            logger = logging.getLogger("verif.c17")
            logger.disabled = True
            logging.getLogger("easynetwork").disabled = True
            H = TcpHandler(be, log, position, lambda: _exc(kind))
            from easynetwork.protocol import BufferedStreamProtocol

            proto = (BufferedStreamProtocol if path == "buf" else StreamProtocol)(L.RawSep(b"\n", limit=8))
            server = AsyncTCPNetworkServer("h", 0, proto, H, be, logger=logger)
            main = loop.create_task(server.serve_forever())
            for _ in range(8):
                loop.step()
                if server.is_serving():
                    break
            bad_first = position in ("handle-in-except", "reraise-parse-error")
            bad_second = position == "parse-error-after-valid"  # a malformed request right behind a valid one (same chunk possible)
            f_stream = (b"!\n" if bad_first else b"") + (b"a\n!\nb\n" if bad_second else b"a\nb\n")
            h_stream = b"x\ny\n"
            tf = MemStreamTransport(be, f_stream, available=0, loop=loop)
            th = MemStreamTransport(be, h_stream, available=0, loop=loop)
            if position == "no-peername":
                # the peer vanished before the connection task started: the accepted socket has no peer address any more
                class NoPeer(MemStreamTransport):
                    @property
                    def extra_attributes(self):
                        from easynetwork.lowlevel.socket import INETSocketAttribute

                        d = dict(MemStreamTransport.extra_attributes.fget(self))
                        del d[INETSocketAttribute.peername]
                        return d

                tf = NoPeer(be, f_stream, available=0, loop=loop)
                H.faulty = tf  # never reaches on_connection: the first client seen by the hooks is the healthy one
            if position == "reset-after-accept":
                async def reset(*a):
                    raise ConnectionResetError(104, "reset")
                tf.recv = reset
                tf.recv_into = reset
            if position == "peer-error-after-request":
                # the connection breaks (any ConnectionError flavour) while the handler waits for the next request: a disconnect
                peer_exc = S.pick(["ConnectionResetError", "ConnectionAbortedError", "BrokenPipeError"], "peer_error")
                orig_wait = tf._wait_readable

                async def wait_then_break():
                    if tf.rpos >= len(f_stream):
                        raise {"ConnectionResetError": ConnectionResetError(104, "reset"), "ConnectionAbortedError": ConnectionAbortedError(103, "aborted"), "BrokenPipeError": BrokenPipeError(32, "pipe")}[peer_exc]
                    await orig_wait()

                tf._wait_readable = wait_then_break
            be.listeners[0].connect(tf)
            loop.step()
            be.listeners[0].connect(th)
            overlap = 0
            for i in range(K):
                c = prefix[i] if i < len(prefix) else S.choice(3, f"ev{i}")
                if c == 0:
                    loop.step()
                elif c == 1:
                    tf.feed(S.int(2, 4, f"fk{i}"))
                else:
                    th.feed(2)
                if th.rpos < len(h_stream) and any(ev[0] == "disconnected" and ev[1] == "F" for ev in log):
                    overlap += 1
            tf.feed(len(f_stream))
            th.feed(len(h_stream))
            for _ in range(30):
                loop.step()
            tf.feed_eof()  # the faulty client goes away (if the server had not dropped it already)
            for _ in range(60):
                loop.step()
                if loop.idle():
                    break
            problems = []
            if main.done():
                problems.append("server task stopped: " + (repr(main.exception()) if not main.cancelled() else "cancelled"))
            if loop.exceptions:
                problems.append("exception reached the event loop: " + str(loop.exceptions[0].get("message")) + repr(loop.exceptions[0].get("exception")))
            if b"".join(th.sent) != h_stream:
                problems.append(f"healthy client did not get all its responses: {b''.join(th.sent)!r}")
            if not tf.closed:
                problems.append("faulty client's connection was not closed")
            conn_ok = ("connected", "F") in log
            disc = sum(1 for ev in log if ev == ("disconnected", "F"))
            if conn_ok and disc != 1:
                problems.append(f"on_disconnection ran {disc} times for the faulty client although on_connection completed")
            if not conn_ok and disc != 0:
                problems.append("on_disconnection ran although on_connection did not complete")
            if position == "peer-error-after-request":
                thrown = [ev for ev in log if ev[0] == "thrown"]
                if thrown:
                    problems.append(f"a client disconnection (connection error on receive) was thrown into the request handler instead of closing its generator: {thrown}")
            th.feed_eof()
            for _ in range(20):
                loop.step()
            # every client is gone now: the server must still be serving, and a later client is served
            if not problems:
                if main.done():
                    problems.append("server task stopped once the last client had left: " + (repr(main.exception()) if not main.cancelled() else "cancelled"))
                else:
                    tl = MemStreamTransport(be, b"z\n", loop=loop)
                    be.listeners[0].connect(tl)
                    for _ in range(20):
                        loop.step()
                    if b"".join(tl.sent) != b"z\n":
                        problems.append(f"a client connecting after the faulty one was not served: {b''.join(tl.sent)!r}")
                    tl.feed_eof()
                    for _ in range(10):
                        loop.step()
                    if main.done():
                        problems.append("server task stopped after a later client left")
            main.cancel()
            loop.run_until_idle(60)
            tags = ("fault-with-healthy-traffic-pending",) if overlap else ()
            return Outcome(ok=not problems, skeleton=(kind, len(problems)), tags=tags, detail={"problems": problems, "exception": kind, "position": position, "log": log})

    return scenario


def udp(position: str, K: int, prefix: list = ()):
    def scenario(S):
        kind = S.pick(EXC_KINDS, "exc")
        with loop_context() as loop:
            be = MemServerBackend(listener_delay=0)
            log = []
            logger = logging.getLogger("verif.c17")
            logger.disabled = True
            logging.getLogger("easynetwork").disabled = True
            H = UdpHandler(be, log, position, lambda: _exc(kind))
            server = AsyncUDPNetworkServer("h", 0, DatagramProtocol(L.RawFixed(1)), H, be, logger=logger)
            main = loop.create_task(server.serve_forever())
            for _ in range(8):
                loop.step()
                if server.is_serving():
                    break
            lst = be.listeners[0]
            bad_first = position in ("handle-in-except", "reraise-parse-error")
            fq = ([b"!"] if bad_first else []) + [b"a", b"b"]
            hq = [b"x", b"y"]
            for i in range(K):
                c = prefix[i] if i < len(prefix) else S.choice(3, f"ev{i}")
                if c == 0:
                    loop.step()
                elif c == 1 and fq:
                    lst.inject(fq.pop(0), ("F", 1))
                elif c == 2 and hq:
                    lst.inject(hq.pop(0), ("H", 1))
                else:
                    loop.step()
            while fq:
                lst.inject(fq.pop(0), ("F", 1))
                loop.step()
                loop.step()
            while hq:
                lst.inject(hq.pop(0), ("H", 1))
            for _ in range(60):
                loop.step()
                if loop.idle():
                    break
            problems = []
            if main.done():
                problems.append("server task stopped: " + (repr(main.exception()) if not main.cancelled() else "cancelled"))
            if loop.exceptions:
                problems.append("exception reached the event loop: " + str(loop.exceptions[0].get("message")) + repr(loop.exceptions[0].get("exception")))
            h_resp = [d for d, a in lst.transport.sent if a == ("H", 1)]
            if h_resp != [b"x", b"y"]:
                problems.append(f"healthy client did not get all its responses: {h_resp}")
            # after the fault a later datagram from F starts a fresh generator and is handled: the last F datagram (b"b") is answered
            f_resp = [d for d, a in lst.transport.sent if a == ("F", 1)]
            if b"b" not in f_resp:
                problems.append(f"later datagram of the faulty client was not handled by a fresh generator: {f_resp}")
            main.cancel()
            loop.run_until_idle(60)
            return Outcome(ok=not problems, skeleton=(kind, len(problems)), tags=("fault-fired",) if H.fired else (), detail={"problems": problems, "exception": kind, "position": position, "log": log})

    return scenario


# --------------------------------------------------------------------------------------------------
# connection set-up faults inside the real asyncio listener (ListenerSocketAdapter.serve / client_connection_task)

SETUP_EXC = ["reset", "notconn", "einval", "ebadf", "ssl", "timeout", "value", "group"]


def _setup_exc(kind: str):
    import errno
    import ssl

    if kind == "reset":
        return ConnectionResetError(errno.ECONNRESET, "reset")
    if kind == "notconn":
        return OSError(errno.ENOTCONN, "not connected")
    if kind == "einval":
        return OSError(errno.EINVAL, "invalid")
    if kind == "ebadf":
        return OSError(errno.EBADF, "bad fd")
    if kind == "ssl":
        return ssl.SSLError(1, "[SSL] handshake failure")
    if kind == "timeout":
        return TimeoutError("handshake timeout")
    if kind == "group":
        return ExceptionGroup("g", [ValueError("boom")])
    return ValueError("boom")


class _FakeClientSocket:
    def __init__(self, name):
        self.name = name
        self.closed = False

    def close(self):
        self.closed = True

    def fileno(self):
        return -1 if self.closed else 99


def listener_setup(K: int, prefix: list = ()):
    """The REAL ListenerSocketAdapter.serve() on the deterministic loop: loop.sock_accept() is answered from a scripted queue of
    accepted sockets; the accepted-socket factory's connect() succeeds for healthy connections and, for faulty ones, raises a
    solver-chosen exception class after a solver-chosen number of suspensions (0/1).  A solver-chosen schedule interleaves
    healthy / faulty accepts and loop iterations."""
    import asyncio
    import socket as _socket

    from easynetwork.lowlevel.api_async.backend._asyncio.stream.listener import AbstractAcceptedSocketFactory, ListenerSocketAdapter

    def scenario(S):
        with loop_context() as loop:
            be = MemServerBackend()
            logger = logging.getLogger("easynetwork.lowlevel.api_async.backend._asyncio.stream.listener")
            was_disabled = logger.disabled
            logger.disabled = True
            pending = []  # accepted sockets not yet returned by sock_accept
            waiters = []
            handled, logged = [], []

            async def sock_accept(lsock):
                while not pending:
                    fut = loop.create_future()
                    waiters.append(fut)
                    await fut
                return pending.pop(0), ("10.0.0.1", 1)

            loop.sock_accept = sock_accept
            kind = SETUP_EXC[S.choice(len(SETUP_EXC), "exc")]
            delay = S.choice(2, "delay")

            class Factory(AbstractAcceptedSocketFactory):
                def log_connection_error(self, logger, exc):
                    logged.append(type(exc).__name__)

                async def connect(self, backend, sock):
                    await backend.coro_yield()
                    if sock.name.startswith("F"):
                        for _ in range(delay):
                            await backend.coro_yield()
                        raise _setup_exc(kind)
                    return sock

            async def handler(stream):
                handled.append(stream.name)
                await be.coro_yield()

            lsock = _socket.socket()
            try:
                listener = ListenerSocketAdapter(be, lsock, Factory())

                async def serve():
                    async with be.create_task_group() as tg:
                        await listener.serve(handler, tg)

                task = loop.create_task(serve())
                loop.step()
                healthy, faulty = [], []

                def accept(sock):
                    pending.append(sock)
                    for w in waiters:
                        if not w.done():
                            w.set_result(None)
                    waiters.clear()

                for i in range(K):
                    c = prefix[i] if i < len(prefix) else S.choice(3, f"ev{i}")
                    if c == 0:
                        loop.step()
                    elif c == 1:
                        healthy.append(_FakeClientSocket(f"H{i}"))
                        accept(healthy[-1])
                    else:
                        faulty.append(_FakeClientSocket(f"F{i}"))
                        accept(faulty[-1])
                for _ in range(10):
                    loop.step()
                problems = []
                if task.done():
                    problems.append("listener.serve() ended: " + repr(task.exception() if not task.cancelled() else "cancelled")[:120])
                else:
                    # a connection arriving after the faults is still accepted and handled
                    late = _FakeClientSocket("Hlate")
                    healthy.append(late)
                    accept(late)
                    for _ in range(8):
                        loop.step()
                    if task.done():
                        problems.append("listener.serve() ended after a later accept")
                for h in healthy:
                    if h.name not in handled:
                        problems.append(f"healthy connection {h.name} was never handed to the handler")
                for f in faulty:
                    if not f.closed:
                        problems.append(f"faulty connection {f.name}: accepted socket not closed")
                    if f.name in handled:
                        problems.append(f"faulty connection {f.name} reached the handler")
                if loop.exceptions:
                    problems.append("loop exception: " + str(loop.exceptions[0].get("message")))
                if not task.done():
                    task.cancel()
                    for _ in range(6):
                        loop.step()
                tags = []
                if faulty and healthy[:-1]:
                    tags.append("fault-with-healthy-traffic")
                return Outcome(ok=not problems, skeleton=[kind, delay, len(faulty), len(healthy)], tags=tuple(tags), detail={"problems": problems, "exc": kind, "delay": delay, "handled": handled, "logged": logged})
            finally:
                logger.disabled = was_disabled
                lsock.close()

    return scenario


def shards(tier: str):
    out = []
    quick = tier == "quick"
    B = 200 if quick else 1200
    K = 3 if quick else 5
    for pos in TCP_POSITIONS:
        for pre in range(3):
            out.append({"name": f"tcp/{pos}/K{K}/pre{pre}", "scenario": "props.c17:tcp", "params": dict(position=pos, K=K, prefix=[pre]), "budget": B, "cost": 7 * 3**K, "per_path_timeout": 30})
    for pos in ("parse-error-after-valid", "handle-in-except", "handle-after-request", "reset-after-accept", "peer-error-after-request"):
        for pre in range(3):
            out.append({"name": f"tcp-buf/{pos}/K{K}/pre{pre}", "scenario": "props.c17:tcp", "params": dict(position=pos, K=K, prefix=[pre], path="buf"), "budget": B, "cost": 7 * 3**K, "per_path_timeout": 30})
    for pos in UDP_POSITIONS:
        for pre in range(3):
            out.append({"name": f"udp/{pos}/K{K}/pre{pre}", "scenario": "props.c17:udp", "params": dict(position=pos, K=K, prefix=[pre]), "budget": B, "cost": 7 * 3**K, "per_path_timeout": 30})
    Ks = 4 if quick else 6
    for pre in range(3):
        out.append({"name": f"listener-setup/K{Ks}/pre{pre}", "scenario": "props.c17:listener_setup", "params": dict(K=Ks, prefix=[pre]), "budget": B, "cost": 16 * 3**Ks, "per_path_timeout": 30})
    return out
