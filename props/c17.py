"""C17 - One client's failure (handler or connection set-up) never affects the others.

Real code: AsyncTCPNetworkServer (__client_initializer, __suppress_and_log_remaining_exception, _ConnectedClientAPI),
build_lowlevel_stream_server_handler (all hook positions), AsyncStreamServer client coroutine / task-group wiring;
AsyncUDPNetworkServer (_ClientContext.__aexit__), build_lowlevel_datagram_server_handler, AsyncDatagramServer - on the
deterministic loop over in-memory listeners.
One client is faulty: a solver-chosen exception class is raised at a solver-chosen hook position (on_connection before/after an
await, handle() before the first yield / after a request / while handling a thrown parse error, on_disconnection), or its
connection is reset right after being accepted (first read raises ConnectionResetError).  A healthy client exchanges requests at
the same time; a solver-chosen schedule interleaves loop iterations and the two clients' traffic.
Asserted: the server task is still running and no exception reached the event loop; the healthy client receives every response;
TCP: the faulty transport is closed and on_disconnection ran iff on_connection completed; UDP: a later datagram from the faulty
address starts a fresh generator and is handled.
"""

from __future__ import annotations

import logging

from easynetwork.exceptions import ClientClosedError, DatagramProtocolParseError, StreamProtocolParseError
from easynetwork.protocol import DatagramProtocol, StreamProtocol
from easynetwork.servers.async_tcp import AsyncTCPNetworkServer
from easynetwork.servers.async_udp import AsyncUDPNetworkServer
from easynetwork.servers.handlers import AsyncDatagramRequestHandler, AsyncStreamRequestHandler

from sx.engine import Outcome

from . import streamlib as L
from .asyncenv import MemServerBackend, MemStreamTransport, loop_context

NONTRIVIAL_RULE = "the fault fired while the healthy client still had traffic pending"
STUBS = ["DetLoop; MemServerBackend (in-memory TCP / UDP listeners); MemStreamTransport clients; logging disabled"]
ASSUMPTIONS = ["'exception of any class' = Exception subclasses and exception groups of them (KeyboardInterrupt/SystemExit are outside)", "TLS handshake failures are outside (real OpenSSL)"]
BOUNDS = {"quick": "one faulty + one healthy client, 7 exception classes x 6 hook positions (+ reset after accept), K <= 3 schedule events", "thorough": "K <= 5"}
OUTSIDE = "real listening sockets / kernel RST, TLS handshake errors, standalone (threaded) servers"


def _exc(kind: str):
    if kind == "value":
        return ValueError("boom")
    if kind == "group":
        return ExceptionGroup("g", [ValueError("boom")])
    if kind == "conn":
        return ConnectionResetError(104, "reset")
    if kind == "closed":
        return ClientClosedError("closed")
    if kind == "timeout":
        return TimeoutError("t")
    if kind == "mixed":
        return ExceptionGroup("m", [ClientClosedError("closed"), ValueError("boom")])
    if kind == "conngroup":
        return ExceptionGroup("c", [ConnectionResetError(104, "reset"), ClientClosedError("closed")])
    raise ValueError(kind)


EXC_KINDS = ["value", "group", "conn", "closed", "timeout", "mixed", "conngroup"]
TCP_POSITIONS = ["parse-error-after-valid", "conn-before", "conn-after", "handle-before-yield", "handle-after-request", "handle-in-except", "disconnect", "reset-after-accept", "reraise-parse-error", "yield-invalid-timeout", "peer-error-after-request"]
UDP_POSITIONS = ["handle-before-yield", "handle-after-request", "handle-in-except", "reraise-parse-error", "yield-invalid-timeout"]


class TcpHandler(AsyncStreamRequestHandler):
    def __init__(self, be, log, position, make_exc):
        self.be = be
        self.log = log
        self.position = position
        self.make_exc = make_exc
        self.faulty = None  # the first connected client is the faulty one

    def is_faulty(self, client):
        return client is self.faulty

    async def on_connection(self, client):
        if self.faulty is None:
            self.faulty = client
        who = "F" if self.is_faulty(client) else "H"
        if who == "F" and self.position == "conn-before":
            raise self.make_exc()
        await self.be.coro_yield()
        if who == "F" and self.position == "conn-after":
            raise self.make_exc()
        self.log.append(("connected", who))

    async def on_disconnection(self, client):
        who = "F" if self.is_faulty(client) else "H"
        self.log.append(("disconnected", who))
        if who == "F" and self.position == "disconnect":
            raise self.make_exc()

    async def handle(self, client):
        who = "F" if self.is_faulty(client) else "H"
        if who == "F" and self.position == "handle-before-yield":
            raise self.make_exc()
        try:
            # a handler that yields an invalid timeout (NaN) is a handler failure like any other
            req = yield (float("nan") if (who == "F" and self.position == "yield-invalid-timeout") else None)
        except StreamProtocolParseError:
            if who == "F" and self.position == "handle-in-except":
                raise self.make_exc()
            if who == "F" and self.position == "reraise-parse-error":
                raise
            return
        except GeneratorExit:
            raise
        except BaseException as e:  # noqa: BLE001
            self.log.append(("thrown", who, type(e).__name__))
            raise
        self.log.append(("req", who, req))
        await client.send_packet(req)
        if who == "F" and self.position == "handle-after-request":
            raise self.make_exc()


class UdpHandler(AsyncDatagramRequestHandler):
    def __init__(self, be, log, position, make_exc):
        self.be = be
        self.log = log
        self.position = position
        self.make_exc = make_exc
        self.fired = False

    async def handle(self, client):
        from easynetwork.servers.handlers import INETClientAttribute

        who = client.extra(INETClientAttribute.remote_address).host
        self.log.append(("gen-start", who))
        armed = who == "F" and not self.fired
        if armed and self.position == "handle-before-yield":
            self.fired = True
            raise self.make_exc()
        try:
            if armed and self.position == "yield-invalid-timeout":
                self.fired = True
                yield None
                req = yield float("nan")
            else:
                req = yield None
        except DatagramProtocolParseError:
            if armed and self.position == "handle-in-except":
                self.fired = True
                raise self.make_exc()
            if armed and self.position == "reraise-parse-error":
                self.fired = True
                raise
            return
        self.log.append(("req", who, req))
        await client.send_packet(req)
        if armed and self.position == "handle-after-request":
            self.fired = True
            raise self.make_exc()


def tcp(position: str, K: int, prefix: list = (), path: str = "copy"):
    def scenario(S):
        kind = S.pick(EXC_KINDS, "exc")
        with loop_context() as loop:
            be = MemServerBackend(listener_delay=0)
            log = []
            logger = logging.getLogger("verif.c17")
            logger.disabled = True
            logging.getLogger("easynetwork").disabled = True
            H = TcpHandler(be, log, position, lambda: _exc(kind))
            from easynetwork.protocol import BufferedStreamProtocol

            proto = (BufferedStreamProtocol if path == "buf" else StreamProtocol)(L.RawSep(b"\n", limit=8))
            server = AsyncTCPNetworkServer("h", 0, proto, H, be, logger=logger)
            main = loop.create_task(server.serve_forever())
            for _ in range(8):
                loop.step()
                if server.is_serving():
                    break
            bad_first = position in ("handle-in-except", "reraise-parse-error")
            bad_second = position == "parse-error-after-valid"  # a malformed request right behind a valid one (same chunk possible)
            f_stream = (b"!\n" if bad_first else b"") + (b"a\n!\nb\n" if bad_second else b"a\nb\n")
            h_stream = b"x\ny\n"
            tf = MemStreamTransport(be, f_stream, available=0, loop=loop)
            th = MemStreamTransport(be, h_stream, available=0, loop=loop)
            if position == "reset-after-accept":
                async def reset(*a):
                    raise ConnectionResetError(104, "reset")
                tf.recv = reset
                tf.recv_into = reset
            if position == "peer-error-after-request":
                # the connection breaks (any ConnectionError flavour) while the handler waits for the next request: a disconnect
                peer_exc = S.pick(["ConnectionResetError", "ConnectionAbortedError", "BrokenPipeError"], "peer_error")
                orig_wait = tf._wait_readable

                async def wait_then_break():
                    if tf.rpos >= len(f_stream):
                        raise {"ConnectionResetError": ConnectionResetError(104, "reset"), "ConnectionAbortedError": ConnectionAbortedError(103, "aborted"), "BrokenPipeError": BrokenPipeError(32, "pipe")}[peer_exc]
                    await orig_wait()

                tf._wait_readable = wait_then_break
            be.listeners[0].connect(tf)
            loop.step()
            be.listeners[0].connect(th)
            overlap = 0
            for i in range(K):
                c = prefix[i] if i < len(prefix) else S.choice(3, f"ev{i}")
                if c == 0:
                    loop.step()
                elif c == 1:
                    tf.feed(S.int(2, 4, f"fk{i}"))
                else:
                    th.feed(2)
                if th.rpos < len(h_stream) and any(ev[0] == "disconnected" and ev[1] == "F" for ev in log):
                    overlap += 1
            tf.feed(len(f_stream))
            th.feed(len(h_stream))
            for _ in range(30):
                loop.step()
            tf.feed_eof()  # the faulty client goes away (if the server had not dropped it already)
            for _ in range(60):
                loop.step()
                if loop.idle():
                    break
            problems = []
            if main.done():
                problems.append("server task stopped: " + (repr(main.exception()) if not main.cancelled() else "cancelled"))
            if loop.exceptions:
                problems.append("exception reached the event loop: " + str(loop.exceptions[0].get("message")) + repr(loop.exceptions[0].get("exception")))
            if b"".join(th.sent) != h_stream:
                problems.append(f"healthy client did not get all its responses: {b''.join(th.sent)!r}")
            if not tf.closed:
                problems.append("faulty client's connection was not closed")
            conn_ok = ("connected", "F") in log
            disc = sum(1 for ev in log if ev == ("disconnected", "F"))
            if conn_ok and disc != 1:
                problems.append(f"on_disconnection ran {disc} times for the faulty client although on_connection completed")
            if not conn_ok and disc != 0:
                problems.append("on_disconnection ran although on_connection did not complete")
            if position == "peer-error-after-request":
                thrown = [ev for ev in log if ev[0] == "thrown"]
                if thrown:
                    problems.append(f"a client disconnection (connection error on receive) was thrown into the request handler instead of closing its generator: {thrown}")
            th.feed_eof()
            for _ in range(20):
                loop.step()
            main.cancel()
            loop.run_until_idle(60)
            tags = ("fault-with-healthy-traffic-pending",) if overlap else ()
            return Outcome(ok=not problems, skeleton=(kind, len(problems)), tags=tags, detail={"problems": problems, "exception": kind, "position": position, "log": log})

    return scenario


def udp(position: str, K: int, prefix: list = ()):
    def scenario(S):
        kind = S.pick(EXC_KINDS, "exc")
        with loop_context() as loop:
            be = MemServerBackend(listener_delay=0)
            log = []
            logger = logging.getLogger("verif.c17")
            logger.disabled = True
            logging.getLogger("easynetwork").disabled = True
            H = UdpHandler(be, log, position, lambda: _exc(kind))
            server = AsyncUDPNetworkServer("h", 0, DatagramProtocol(L.RawFixed(1)), H, be, logger=logger)
            main = loop.create_task(server.serve_forever())
            for _ in range(8):
                loop.step()
                if server.is_serving():
                    break
            lst = be.listeners[0]
            bad_first = position in ("handle-in-except", "reraise-parse-error")
            fq = ([b"!"] if bad_first else []) + [b"a", b"b"]
            hq = [b"x", b"y"]
            for i in range(K):
                c = prefix[i] if i < len(prefix) else S.choice(3, f"ev{i}")
                if c == 0:
                    loop.step()
                elif c == 1 and fq:
                    lst.inject(fq.pop(0), ("F", 1))
                elif c == 2 and hq:
                    lst.inject(hq.pop(0), ("H", 1))
                else:
                    loop.step()
            while fq:
                lst.inject(fq.pop(0), ("F", 1))
                loop.step()
                loop.step()
            while hq:
                lst.inject(hq.pop(0), ("H", 1))
            for _ in range(60):
                loop.step()
                if loop.idle():
                    break
            problems = []
            if main.done():
                problems.append("server task stopped: " + (repr(main.exception()) if not main.cancelled() else "cancelled"))
            if loop.exceptions:
                problems.append("exception reached the event loop: " + str(loop.exceptions[0].get("message")) + repr(loop.exceptions[0].get("exception")))
            h_resp = [d for d, a in lst.transport.sent if a == ("H", 1)]
            if h_resp != [b"x", b"y"]:
                problems.append(f"healthy client did not get all its responses: {h_resp}")
            # after the fault a later datagram from F starts a fresh generator and is handled: the last F datagram (b"b") is answered
            f_resp = [d for d, a in lst.transport.sent if a == ("F", 1)]
            if b"b" not in f_resp:
                problems.append(f"later datagram of the faulty client was not handled by a fresh generator: {f_resp}")
            main.cancel()
            loop.run_until_idle(60)
            return Outcome(ok=not problems, skeleton=(kind, len(problems)), tags=("fault-fired",) if H.fired else (), detail={"problems": problems, "exception": kind, "position": position, "log": log})

    return scenario


def shards(tier: str):
    out = []
    quick = tier == "quick"
    B = 200 if quick else 1200
    K = 3 if quick else 5
    for pos in TCP_POSITIONS:
        for pre in range(3):
            out.append({"name": f"tcp/{pos}/K{K}/pre{pre}", "scenario": "props.c17:tcp", "params": dict(position=pos, K=K, prefix=[pre]), "budget": B, "cost": 7 * 3**K, "per_path_timeout": 30})
    for pos in ("parse-error-after-valid", "handle-in-except", "handle-after-request", "reset-after-accept", "peer-error-after-request"):
        for pre in range(3):
            out.append({"name": f"tcp-buf/{pos}/K{K}/pre{pre}", "scenario": "props.c17:tcp", "params": dict(position=pos, K=K, prefix=[pre], path="buf"), "budget": B, "cost": 7 * 3**K, "per_path_timeout": 30})
    for pos in UDP_POSITIONS:
        for pre in range(3):
            out.append({"name": f"udp/{pos}/K{K}/pre{pre}", "scenario": "props.c17:udp", "params": dict(position=pos, K=K, prefix=[pre]), "budget": B, "cost": 7 * 3**K, "per_path_timeout": 30})
    return out
