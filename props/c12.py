"""C12 - Concurrent senders never interleave packets (asyncio objects).

n sender tasks call send_packet concurrently on one object; each packet is a vector of 2 chunks (distinct bytes per sender and
packet); the in-memory transport suspends before each chunk is written (every await point really yields); a solver-chosen
schedule decides which events happen (loop iteration | start next sender | cancel a waiting sender).
Objects: the real AsyncTCPNetworkClient (FairLock send lock, connection on first use), the server-side _ConnectedClientAPI
(servers/async_tcp.py) over the real ConnectedStreamClient, and the real AsyncTLSStreamTransport (send_all_from_iterable, backlog,
fair transport locks, concurrent receiver) over a pass-through stub SSL object.
Asserted: every send_packet that was not cancelled returns normally; on the wire each packet's bytes are contiguous and appear
exactly once; packets of one sender keep their order; a cancelled waiter does not strand the others.
"""

from __future__ import annotations

import collections
import ssl as _ssl

import easynetwork.clients.async_tcp as atcp
from easynetwork.lowlevel._stream import StreamDataProducer
from easynetwork.lowlevel.api_async.backend._asyncio.backend import AsyncIOBackend
from easynetwork.lowlevel.api_async.servers.stream import ConnectedStreamClient
from easynetwork.lowlevel.api_async.transports.tls import AsyncTLSStreamTransport
from easynetwork.lowlevel.socket import SocketAddress, new_socket_address
from easynetwork.protocol import StreamProtocol
from easynetwork.servers.async_tcp import _ConnectedClientAPI

from sx.engine import Outcome

from .asyncenv import MemStreamTransport, loop_context
from .c04 import ChunkSerializer

NONTRIVIAL_RULE = "two senders overlapped in time (a sender started while another was suspended inside its packet), or a waiting sender was cancelled"
STUBS = [
    "DetLoop + MemStreamTransport (suspends max_susp loop iterations before every chunk write)",
    "backend subclass whose create_tcp_connection returns the in-memory transport",
    "PassThroughSSL: stands for ssl.SSLObject (write() copies 1..n plaintext bytes into the write BIO or raises SSLWantRead/WriteError by solver choice; read() returns what is in the read BIO or raises SSLWantReadError); StubBIO for ssl.MemoryBIO. Byte-transparency of real OpenSSL is NOT claimed (C08)",
]
ASSUMPTIONS = ["OS threads (TCPNetworkClient/UDPNetworkClient with threading locks) are outside: no installed engine makes thread interleavings symbolic; their lock discipline is covered single-threaded by C11's StubLock"]
BOUNDS = {"quick": "2-3 senders x 1-2 packets of 2 chunks, <= 1 suspension per chunk, K <= 5 events; both lock implementations (asyncio.Lock and the generic FairLock); FairLock alone: 4 tasks, <= 2 cancellations, K <= 6", "thorough": "3 senders x 2 packets, <= 2 suspensions"}
OUTSIDE = "thread-safe blocking clients, UDP clients, real OpenSSL"


class MemBackend(AsyncIOBackend):
    def __init__(self, transport_factory):
        super().__init__()
        self._factory = transport_factory

    async def create_tcp_connection(self, host, port, **kwargs):
        await self.coro_yield()
        return self._factory()


class StubBIO:
    def __init__(self):
        self.buf = b""
        self.eof = False

    @property
    def pending(self):
        return len(self.buf)

    def read(self, n=-1):
        out, self.buf = self.buf, b""
        return out

    def write(self, data):
        data = bytes(data)
        self.buf += data
        return len(data)

    def write_eof(self):
        self.eof = True


class PassThroughSSL:
    def __init__(self, rbio, wbio, decide_write, decide_fault):
        self.rbio, self.wbio = rbio, wbio
        self.decide_write = decide_write
        self.decide_fault = decide_fault
        self.context = None

    def write(self, data):
        data = bytes(data)
        f = self.decide_fault()
        if f == 1:
            raise _ssl.SSLWantReadError()
        if f == 2:
            raise _ssl.SSLWantWriteError()
        n = self.decide_write(len(data)) if len(data) > 1 else len(data)
        self.wbio.write(data[:n])
        return n

    def read(self, n, buffer=None):
        if not self.rbio.buf:
            if self.rbio.eof:
                raise _ssl.SSLZeroReturnError()
            raise _ssl.SSLWantReadError()
        out, self.rbio.buf = self.rbio.buf[:n], self.rbio.buf[n:]
        if buffer is not None:
            buffer[: len(out)] = out
            return len(out)
        return out

    def getpeercert(self, *a):
        return None

    def cipher(self):
        return None

    def compression(self):
        return None

    def version(self):
        return None


class GenericLockBackend(MemBackend):
    """same in-memory backend, but fair locks are the backend-independent FairLock (_common/fair_lock.py) - what
    AsyncBackend.create_fair_lock() returns by default and what every backend other than asyncio uses."""

    def create_fair_lock(self):
        from easynetwork.lowlevel.api_async.backend._common.fair_lock import FairLock

        return FairLock(self)


def fairlock(n: int, K: int, prefix: list = ()):
    """The generic FairLock alone: n tasks do `async with lock:` and hold it for 4 loop iterations; the solver chooses the schedule
    (loop iteration / start the next task / cancel task j, waiting or holding).  Asserted: never two holders at once, tasks enter
    in the order in which they started waiting (cancelled ones skipped), every task that was not cancelled gets the lock and
    finishes (nobody stranded), release() never fails, the lock ends unlocked."""
    from easynetwork.lowlevel.api_async.backend._common.fair_lock import FairLock

    def scenario(S):
        with loop_context() as loop:
            be = MemBackend(lambda: None)
            lock = FairLock(be)
            st = {"inside": 0, "max_inside": 0, "entered": [], "asked": []}
            info = []

            async def worker(i):
                rec = info[i]
                try:
                    st["asked"].append(i)
                    async with lock:
                        st["inside"] += 1
                        st["max_inside"] = max(st["max_inside"], st["inside"])
                        st["entered"].append(i)
                        try:
                            for _ in range(4):
                                await be.coro_yield()
                        finally:
                            st["inside"] -= 1
                    rec["state"] = "returned"
                except BaseException as e:  # noqa: BLE001
                    rec["state"] = "cancelled" if type(e).__name__ == "CancelledError" else "raised:" + type(e).__name__ + ":" + str(e)
                    if rec["state"] == "cancelled":
                        raise

            def start():
                if len(info) < n:
                    rec = {"state": "running"}
                    info.append(rec)
                    rec["task"] = loop.create_task(worker(len(info) - 1))

            start()
            cancels = 0
            for i in range(K):
                c = prefix[i] if i < len(prefix) else S.choice(3, f"ev{i}")
                if c == 0:
                    loop.step()
                elif c == 1:
                    start()
                else:
                    if cancels < 2 and info:
                        j = S.choice(len(info), f"who{i}")
                        t = info[j]["task"]
                        if not t.done():
                            cancels += 1
                            info[j]["cancel_requested"] = True
                            t.cancel()
                        else:
                            loop.step()
                    else:
                        loop.step()
            while len(info) < n:
                start()
            finished = False
            for _ in range(8 * n + 20):
                loop.step()
                if all(r["task"].done() for r in info):
                    finished = True
                    break
            ok = finished and st["max_inside"] <= 1 and not lock.locked()
            problems = []
            if not finished:
                problems.append("a task never got the lock (stranded)")
            if st["max_inside"] > 1:
                problems.append("two holders at once")
            if lock.locked():
                problems.append("lock left locked")
            for i, rec in enumerate(info):
                if rec["task"].done() and not rec.get("cancel_requested") and rec["state"] != "returned":
                    ok = False
                    problems.append(f"task {i}: {rec['state']}")
                if rec.get("cancel_requested") and rec["state"] not in ("cancelled", "returned", "running"):
                    ok = False
                    problems.append(f"cancelled task {i}: {rec['state']}")
            order = [i for i in st["asked"] if i in st["entered"]]
            if order != st["entered"]:
                ok = False
                problems.append(f"not first-come-first-served: asked {st['asked']} entered {st['entered']}")
            if loop.exceptions:
                ok = False
                problems.append("loop exception")
            tags = []
            if cancels:
                tags.append("cancel-waiter")
            if len(st["entered"]) >= 2:
                tags.append("overlap")
            return Outcome(ok=ok, skeleton=([r["state"] for r in info], st["entered"]), tags=tuple(tags), detail={"problems": problems, "asked": st["asked"], "entered": st["entered"], "states": [r["state"] for r in info]})

    return scenario


def senders(target: str, n: int, per: int, K: int, max_susp: int = 1, with_receiver: bool = False, prefix: list = (), lock: str = "native"):
    """target: client | serverapi | tls ; lock: native (asyncio.Lock, what AsyncIOBackend.create_fair_lock returns) | generic (FairLock)"""

    def scenario(S):
        with loop_context() as loop:
            st = {"susp_calls": 0}

            def susp():
                # every write suspends (the adversarial setting: each await point really yields); not a solver variable
                st["susp_calls"] += 1
                return max_susp

            holder = {}

            def make_transport():
                tr = MemStreamTransport(be, b"x" * 8, available=0 if with_receiver else 8, loop=loop)
                tr.send_suspensions = susp
                holder["tr"] = tr
                return tr

            be = (GenericLockBackend if lock == "generic" else MemBackend)(make_transport)
            if target == "client":
                obj = atcp.AsyncTCPNetworkClient(("host", 1), StreamProtocol(ChunkSerializer()), be)
                send = obj.send_packet
            elif target == "serverapi":
                tr = make_transport()
                low = ConnectedStreamClient(_transport=tr, _producer=StreamDataProducer(StreamProtocol(ChunkSerializer())))
                obj = _ConnectedClientAPI(new_socket_address(("127.0.0.1", 2), 2), low)
                send = obj.send_packet
            else:
                tr = make_transport()
                rbio, wbio = StubBIO(), StubBIO()
                budget = {"faults": 1}

                def decide_fault():
                    if budget["faults"] <= 0:
                        return 0
                    f = 2 if S.bool("fault") else 0  # want-write only: a want-read on the write path needs peer data (renegotiation), outside
                    if f:
                        budget["faults"] -= 1
                    return f

                sslobj = PassThroughSSL(rbio, wbio, lambda m: S.int(1, 2, "w") if m >= 2 else m, decide_fault)
                obj = AsyncTLSStreamTransport(_transport=tr, _standard_compatible=True, _shutdown_timeout=1.0, _ssl_object=sslobj, _read_bio=rbio, _write_bio=wbio)
                send = obj.send_all_from_iterable

            info = []
            packets = {}

            async def sender(i):
                rec = info[i]
                try:
                    for j in range(per):
                        pkt = [bytes([65 + i * 8 + j * 2]), bytes([66 + i * 8 + j * 2])]
                        packets[(i, j)] = b"".join(pkt)
                        rec["started"] = j + 1
                        await send(pkt)
                        rec["done"] = j + 1
                    rec["state"] = "returned"
                except BaseException as e:  # noqa: BLE001
                    rec["state"] = "cancelled" if type(e).__name__ == "CancelledError" else "raised:" + type(e).__name__
                    if rec["state"] == "cancelled":
                        raise

            recv_task = None
            if target == "tls" and with_receiver:

                async def receiver():
                    # keeps receiving: every time the read BIO is empty it goes through the want-read path (which first
                    # flushes pending TLS records under the transport send lock) at a moment chosen by the feed events
                    try:
                        while True:
                            if not await obj.recv(1):
                                return
                    except BaseException as e:  # noqa: BLE001
                        if type(e).__name__ == "CancelledError":
                            raise

                recv_task = loop.create_task(receiver())

            def start():
                if len(info) < n:
                    rec = {"state": "running", "started": 0, "done": 0}
                    info.append(rec)
                    rec["task"] = loop.create_task(sender(len(info) - 1))

            start()
            overlap = 0
            cancelled = 0
            for i in range(K):
                c = prefix[i] if i < len(prefix) else S.choice(4 if with_receiver else 3, f"ev{i}")
                running = sum(1 for r in info if not r["task"].done())
                if running >= 2:
                    overlap += 1
                if c == 0:
                    loop.step()
                elif c == 1:
                    start()
                elif c == 3:
                    holder["tr"].feed(1)  # one more byte from the peer: the receiver wakes up, consumes it and waits again
                else:
                    if cancelled == 0 and len(info) >= 2:
                        j = S.choice(len(info), f"who{i}")
                        t = info[j]["task"]
                        if not t.done() and info[j]["started"] == info[j]["done"]:
                            # only a sender that is not in the middle of a packet (i.e. waiting for the lock / not started):
                            # cancelling mid-packet legitimately leaves a partial packet on the wire
                            cancelled += 1
                            info[j]["cancel_requested"] = True
                            t.cancel()
                        else:
                            loop.step()
                    else:
                        loop.step()
            while len(info) < n:
                start()
            if "tr" in holder and with_receiver:
                holder["tr"].feed(8)
            finished = False
            for _ in range(40 * n * per + 60):
                loop.step()
                if all(r["task"].done() for r in info):
                    finished = True
                    break
            if recv_task is not None:
                recv_task.cancel()
                loop.run_until_idle(20)
            tr = holder.get("tr")
            wire = b"".join(tr.sent) if tr is not None else b""
            ok = finished
            problems = []
            if not finished:
                problems.append("a sender never finished (stranded)")
            for i, rec in enumerate(info):
                if rec.get("cancel_requested"):
                    continue
                if rec["state"] != "returned":
                    ok = False
                    problems.append(f"sender {i}: {rec['state']}")
            # wire: concatenation of whole packets, each once; per-sender order
            pos = 0
            seen = []
            while pos < len(wire):
                hit = None
                for key, data in packets.items():
                    if wire[pos : pos + len(data)] == data:
                        hit = key
                        break
                if hit is None:
                    ok = False
                    problems.append(f"wire is not a sequence of whole packets at offset {pos}")
                    break
                seen.append(hit)
                pos += len(packets[hit])
            if len(set(seen)) != len(seen):
                ok = False
                problems.append("a packet appears twice")
            for i, rec in enumerate(info):
                mine = [k[1] for k in seen if k[0] == i]
                if mine != sorted(mine):
                    ok = False
                    problems.append(f"sender {i}: packets out of order")
                if not rec.get("cancel_requested") and rec["state"] == "returned" and mine != list(range(per)):
                    ok = False
                    problems.append(f"sender {i}: packets missing on the wire {mine}")
            tags = []
            if overlap:
                tags.append("overlap")
            if cancelled:
                tags.append("cancel-waiter")
            if loop.exceptions:
                ok = False
                problems.append("loop exception")
            return Outcome(ok=ok, skeleton=([r["state"] for r in info], len(wire)), tags=tuple(tags), detail={"problems": problems, "wire": wire, "states": [r["state"] for r in info], "loop_exceptions": [str(c.get("message")) + repr(c.get("exception")) for c in loop.exceptions]})

    return scenario


def shards(tier: str):
    out = []
    quick = tier == "quick"
    B = 200 if quick else 1500
    K = 5 if quick else 7
    for target in ("client", "serverapi", "tls"):
        Kt = K
        for n, per in ((2, 2), (3, 1)) if quick else ((2, 2), (3, 1), (3, 2)):
            for pre in range(3):
                out.append({"name": f"senders/{target}/n{n}x{per}/K{Kt}/pre{pre}", "scenario": "props.c12:senders", "params": dict(target=target, n=n, per=per, K=Kt, prefix=[pre]), "budget": B, "cost": 3**Kt * n * per, "per_path_timeout": 30})
    # the backend-independent FairLock: alone, and under the three senders
    for pre in range(3):
        out.append({"name": f"fairlock/n4/K{K + 1}/pre{pre}", "scenario": "props.c12:fairlock", "params": dict(n=4, K=K + 1, prefix=[pre]), "budget": B, "cost": 3**K, "per_path_timeout": 30})
    for target in ("client", "serverapi", "tls"):
        for pre in range(3):
            out.append({"name": f"senders-genericlock/{target}/n3x1/K{K}/pre{pre}", "scenario": "props.c12:senders", "params": dict(target=target, n=3, per=1, K=K, prefix=[pre], lock="generic"), "budget": B, "cost": 3**K * 3, "per_path_timeout": 30})
    import itertools

    for pre in itertools.product(range(4), repeat=2):
        out.append({"name": f"senders/tls-recv/n3x1/K{K}/pre{pre[0]}{pre[1]}", "scenario": "props.c12:senders", "params": dict(target="tls", n=3, per=1, K=K, with_receiver=True, prefix=list(pre)), "budget": B, "cost": 4 ** (K - 2) * 30, "per_path_timeout": 30})
    return out
