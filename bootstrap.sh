#!/bin/sh
# Idempotent, offline: build the overlay venv used by every check (CrossHair + z3 on top of /venv's packages).
set -e
HERE="$(cd "$(dirname "$0")" && pwd)"
V="$HERE/.venv"
if [ -x "$V/bin/python" ] && "$V/bin/python" -c "import crosshair, z3, easynetwork" >/dev/null 2>&1; then
    exit 0
fi
rm -rf "$V"
/venv/bin/python -m venv "$V"
SP="$("$V/bin/python" -c 'import sysconfig; print(sysconfig.get_paths()["purelib"])')"
echo "import site; site.addsitedir('/venv/lib/python3.12/site-packages')" > "$SP/_overlay.pth"
PIP_NO_INDEX=1 "$V/bin/pip" install -q --no-index --find-links /opt/veriftools/wheels crosshair-tool z3-solver >/dev/null
"$V/bin/python" -c "import crosshair, z3, easynetwork; print('bootstrap ok', z3.get_version_string())"
