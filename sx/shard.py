"""Run one shard: ``python -m sx.shard spec.json out.json``.

spec = {"name", "scenario": "props.c02:diff", "params": {...}, "budget": s, "per_path_timeout": s, ...}
"""

from __future__ import annotations

import dataclasses
import importlib
import json
import os
import sys
import time


def load_scenario(spec):
    modname, fname = spec["scenario"].split(":")
    mod = importlib.import_module(modname)
    return getattr(mod, fname)(**spec.get("params", {}))


def main(argv):
    spec = json.load(open(argv[1]))
    out_path = argv[2]
    sys.setrecursionlimit(10000)
    from . import engine

    t0 = time.time()
    if spec.get("ks"):
        # KS engine shard: loop-head induction obligations discharged by z3 directly (no path exploration)
        try:
            import importlib as _il

            d = getattr(_il.import_module(spec["ks"].split(":")[0]), spec["ks"].split(":")[1])()
        except BaseException as e:  # noqa: BLE001
            import traceback

            d = {"verdict": "error", "kind": "ks", "errors": [{"kind": "ks-crash", "exc": repr(e)[:500], "tb": traceback.format_exc()[-3000:]}], "wall": time.time() - t0}
        d["name"] = spec["name"]
        with open(out_path + ".tmp", "w") as f:
            json.dump(d, f, default=str)
        os.replace(out_path + ".tmp", out_path)
        return
    try:
        scenario = load_scenario(spec)
        res = engine.explore(
            scenario,
            budget_s=float(spec.get("budget", 60)),
            per_path_timeout=float(spec.get("per_path_timeout", 30)),
            stop_on_first=bool(spec.get("stop_on_first", True)),
            validate_every=int(spec.get("validate_every", 1)),
            max_samples=int(spec.get("max_samples", 12)),
        )
        d = dataclasses.asdict(res)
    except BaseException as e:  # noqa: BLE001
        import traceback

        d = {"verdict": "error", "errors": [{"kind": "shard-crash", "exc": repr(e)[:500], "tb": traceback.format_exc()[-3000:]}], "wall": time.time() - t0}
    d["name"] = spec["name"]
    tmp = out_path + ".tmp"
    with open(tmp, "w") as f:
        json.dump(d, f)
    os.replace(tmp, out_path)


if __name__ == "__main__":
    main(sys.argv)
