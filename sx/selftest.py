"""Differential self-test of the model supplement (sx/models.py) and of the engine plumbing.

A fixed battery of buffer operation sequences (the shapes EasyNetwork uses: serializer-owned
bytearray + memoryview slices, slice assignment, LimitOverrunError, both consumers, str(buf, enc))
is executed (1) on real builtins and (2) under the CrossHair tracer on the models, with inputs that
are *symbolic but pinned to one value by the path condition*; results must be identical.
Also checks that the engine reports a planted bug (refuted) and an exhaustive pass (confirmed).
Exit 0 = ok; non-zero = the trusted base is broken -> every check aborts with the harness-error code.
"""

from __future__ import annotations

import sys


def _steps(b, n):
    """Each step is independent and returns plain values; an exception is part of the result, so that a
    change in /repo that makes repo code raise shows up identically on both sides (models vs real builtins)."""
    ba = bytearray(8)
    mv = memoryview(ba)

    def s1():
        out = [(len(mv), mv.nbytes, mv.readonly)]
        mv[:3] = b[:3]
        sub = mv[2:]
        out.append((len(sub), sub.nbytes))
        sub[1:4] = b[3:6]
        sub[-1] = 7
        out.append(bytes(ba))
        return out

    def s2():
        out = []
        with memoryview(ba) as v2:
            v3 = v2[n:]
            out.append((v3.nbytes, len(v3), bool(v3)))
            out.append(bytes(v3[:2]))
            c = v2.cast("B")
            out.append(bytes(c[1:3]))
        out.append(ba.find(b[3:5], 0, 8))
        out.append(ba.find(b"\xff\xfe", 2, 6))
        out.append(bytes(mv[n:6]))
        out.append(mv[n:6].tobytes() == bytes(ba[n:6]))
        return out

    def s3():
        ro = mv.toreadonly()
        try:
            ro[0] = 1
            return "writable?!"
        except TypeError:
            return "ro"

    def s4():
        try:
            mv[0:2] = b"abc"
            return "no-error"
        except ValueError:
            return "valueerror"

    def s5():
        from easynetwork.exceptions import LimitOverrunError

        e = LimitOverrunError("m", mv[:6], 2, b"\r\n")
        e2 = LimitOverrunError("m", b + b"\r", 3, b"\r\n")
        return bytes(e.remaining_data), bytes(e2.remaining_data)

    def s6():
        try:
            return str(b[:n], "ascii", "strict")
        except UnicodeError:
            return "unicode-error"

    def s7():
        return str(mv[:2], "latin-1")

    def s8():
        from easynetwork.serializers.tools import GeneratorStreamReader

        r = GeneratorStreamReader()
        g = r.read_until(b"\n", 20, keep_end=False)
        next(g)
        try:
            g.send(b[:n])
            g.send(b[n:] + b"\nxy")
            return "pending"
        except StopIteration as ex:
            return bytes(ex.value), bytes(r.read_all())

    def s9():
        from props import streamlib as L
        from easynetwork.protocol import StreamProtocol

        stream = b[:2] + b"\r\n" + b[2:5] + b"\r\n!" + b[5:] + b"\r\n" + b[:1]
        ev, left = L.drive_copy(StreamProtocol(L.RawSep(b"\r\n", limit=12)), [stream[:n], stream[n:]])
        return [(k, bytes(v) if k == "pkt" else v) for k, v in ev]

    def s10():
        from props import streamlib as L
        from easynetwork.protocol import BufferedStreamProtocol

        stream = b[:2] + b"\r\n" + b[2:5] + b"\r\n!" + b[5:] + b"\r\n" + b[:1]
        ev, left, mb = L.drive_buffered(BufferedStreamProtocol(L.RawSep(b"\r\n", limit=12)), [stream[:n], stream[n:]], 3, [2, 3, 1])
        return [(k, bytes(v) if k == "pkt" else v) for k, v in ev], bytes(left), mb

    def s11():
        return (b[2:4] in b, b"\r\n" in b, b"" in b[:n], 10 in b, b"zz" in b, b[:n].isspace(), b[1:3] in bytearray(b), (b + b" ")[6:].isspace())

    def s12():
        from easynetwork.lowlevel._utils import iter_bytes

        return (bytes(mv[1:4]), bytes(memoryview(b)[n:]), [x for x in iter_bytes(b[:3])], list(map(lambda x, y: x + y, b[:2], b[2:4])), b"".join(map(int.to_bytes, mv[:2])))

    def s13():
        from easynetwork.exceptions import DatagramProtocolParseError, DeserializeError

        e = DeserializeError("Extra data caught", error_info={"packet": b[:2], "extra": b[2:]})
        e2 = DatagramProtocolParseError(e)
        return (f"{e}", str(e2), f"x{ValueError(1, 2)}y", f"{OSError(2, 'nope')}", format(KeyError("k")), f"{ValueError()}|{n:>3}|{b[:1]!r}")

    def s14():
        import math

        out = []
        for f in (math.inf, -math.inf, 0.0, 2.0, 2.5, -0.5, 3.0):
            out.append((n < f, n <= f, n > f, n >= f, n == f, n != f, f < n, f <= n, f > n, f >= n, f == n))
            out.append((f - n) > 1)
            out.append((n - f) < 0.0)
            out.append((n + f) >= 3)
            out.append(max(3 - n, 0.0) > 1)
        return out

    return [s1, s2, s3, s4, s5, s6, s7, s8, s9, s10, s11, s12, s13, s14]


def battery(b: bytes, n: int):
    """b: 6 bytes, n: int in 0..6. Returns a tuple of plain python values."""
    out = []
    for step in _steps(b, n):
        try:
            out.append(step())
        except Exception as e:  # noqa: BLE001
            out.append(("raised", type(e).__name__))
    return tuple(out)


CASES = [(b" \t\r\n\x0b\x0c", 3), (b"abcdef", 0), (b"abcdef", 3), (b"\r\nab\r\n", 2), (b"a\xff\x00\r\n!", 5), (b"!!!!\n\n", 6), (b"\x00\x00\x00\x00\x00\x00", 1), (b"ab\ncd\n", 4)]


def main():
    sys.setrecursionlimit(10000)
    from . import engine
    from .engine import Outcome

    failures = []
    for b, n in CASES:
        expect = battery(b, n)

        def scenario(S, b=b, n=n, expect=expect):
            sb = S.bytes(6, "b")
            sn = S.int(0, 6, "n")
            if not S.symbolic:
                return Outcome(ok=True, skeleton=0)
            S.assume(sb == b)
            S.assume(sn == n)
            got = battery(sb, sn)
            ok = len(got) == len(expect)
            bad = []
            for i, (g, e) in enumerate(zip(got, expect)):
                if not (g == e):
                    ok = False
                    bad.append(i)
            if bad:
                print("selftest mismatch at items", bad, "for", b, n)
            return Outcome(ok=ok, skeleton=0)

        r = engine.explore(scenario, budget_s=120, stop_on_first=False)
        if r.paths_failed or r.paths_confirmed < 1 or r.paths_unknown or r.errors:
            failures.append((b, n, r.verdict, r.paths_failed, r.paths_unknown, r.errors[:1]))

    # engine plumbing: a planted bug must be refuted with a reproducing witness, a true property confirmed
    def planted(S):
        d = S.bytes(3, "d")
        k = S.int(0, 3, "k")
        return Outcome(ok=not (d[:k] == b"\x07\x08"), skeleton=len(d[:k]), tags=("x",))

    r = engine.explore(planted, budget_s=60)
    if r.verdict != "refuted" or not r.counterexamples or r.counterexamples[0]["witness"][0][1][:2] != [7, 8]:
        failures.append(("planted bug not found", r.verdict))

    def true_prop(S):
        d = S.bytes(3, "d")
        k = S.int(0, 3, "k")
        return Outcome(ok=(d[:k] + d[k:] == d), skeleton=len(d[:k]), tags=("x",))

    r = engine.explore(true_prop, budget_s=60)
    if r.verdict != "confirmed":
        failures.append(("true property not confirmed", r.verdict, r.errors[:1]))

    if failures:
        print("MODEL SELF-TEST FAILED:", failures)
        return 2
    print(f"model self-test ok: {len(CASES)} differential batteries (models == real builtins), planted bug refuted, true property confirmed")
    return 0


if __name__ == "__main__":
    sys.exit(main())
