"""SX engine core: drive CrossHair's path exploration over a *scenario* of real code.

A scenario is an ordinary Python function ``scenario(S) -> Outcome`` where ``S`` is a
``Sym`` factory.  Under exploration ``S.bytes(n)``, ``S.int(lo, hi)``, ``S.choice(n)``,
``S.ascii(n)`` return CrossHair proxies backed by fresh z3 variables (lengths are concrete,
contents symbolic); under replay the very same scenario is executed with a ``Sym`` that
hands out concrete values from a stored witness, in a clean interpreter.

For every explored path the engine
  * takes a side-effect free *model peek* (solver.check()/model()) of all variables created,
  * re-runs the scenario concretely (tracing off, real builtins) on that witness,
  * compares verdict + outcome skeleton of the symbolic and the concrete run: a mismatch is an
    engine divergence (the shard is inconclusive, never a pass and never a violation),
  * records the witness as a sample.

The verdict of a shard is
  confirmed     every path explored, each valid, search tree exhausted, nothing unknown
  refuted       at least one path whose verdict is False *and* whose witness fails concretely
  inconclusive  anything else (timeout, solver unknown, unsupported operation, divergence)
"""

from __future__ import annotations

import dataclasses
import sys
import time
import traceback
from typing import Any, Callable

# --------------------------------------------------------------------------------------
# Outcome of a scenario


@dataclasses.dataclass
class Outcome:
    ok: Any  # bool (possibly symbolic): the property's assertion on this run
    skeleton: Any = None  # nested tuple/list of ints/strs/bools (possibly symbolic ints/bools)
    tags: tuple = ()  # concrete strings: which "interesting" things happened on this path
    detail: Any = None  # free-form description for reports (only used on concrete runs)


class Precondition(BaseException):
    """Raised by a scenario when the symbolic inputs are outside the obligation's assumptions.
    (BaseException so that `except Exception` clauses of harness or code under test cannot swallow it.)"""


# --------------------------------------------------------------------------------------
# Sym factories


class ConcreteSym:
    """Replays a witness: hands out the recorded values in creation order."""

    symbolic = False

    def __init__(self, values: list):
        self._values = list(values)
        self._i = 0

    def _next(self, kind: str):
        if self._i >= len(self._values):
            raise RuntimeError("witness exhausted: scenario asked for more values than recorded")
        k, v = self._values[self._i]
        self._i += 1
        if k != kind:
            raise RuntimeError(f"witness kind mismatch: wanted {kind}, recorded {k}")
        return v

    def bytes(self, n: int, name: str = "b") -> bytes:
        v = bytes(self._next("bytes"))
        assert len(v) == n, (len(v), n)
        return v

    def bytes_in(self, n: int, allowed, name: str = "b") -> bytes:
        v = self.bytes(n, name)
        assert all(b in allowed for b in v)
        return v

    def ascii(self, n: int, name: str = "s", hi: int = 127) -> str:
        v = "".join(map(chr, self._next("str")))
        assert len(v) == n
        return v

    def int(self, lo: int, hi: int, name: str = "i") -> int:
        v = self._next("int")
        assert lo <= v <= hi, (lo, v, hi)
        return v

    def choice(self, n: int, name: str = "ch") -> int:
        return self.int(0, n - 1, name)

    def bool(self, name: str = "f") -> bool:
        return bool(self.int(0, 1, name))

    def pick(self, options, name: str = "pick"):
        return options[self.choice(len(options), name)]

    def real_bytearray(self, n: int):
        return bytearray(n)

    def assume(self, cond) -> None:
        if not cond:
            raise Precondition()


class SymbolicSym:
    """Creates z3-backed CrossHair proxies; remembers the variables for the model peek."""

    symbolic = True

    def __init__(self, space):
        self.space = space
        self.created: list = []  # (kind, payload) payload = z3 var | [z3 vars]
        self._n = 0

    def _var(self, name: str, lo: int, hi: int):
        import z3
        from crosshair.tracers import NoTracing

        with NoTracing():
            self._n += 1
            v = z3.Int(f"{name}_{self._n}")
            self.space.add(z3.And(v >= lo, v <= hi))
            return v

    def bytes(self, n: int, name: str = "b"):
        from crosshair.libimpl.builtinslib import SymbolicBytes, SymbolicInt
        from crosshair.tracers import NoTracing

        with NoTracing():
            vs = [self._var(f"{name}{i}", 0, 255) for i in range(n)]
            self.created.append(("bytes", vs))
            if n == 0:
                return b""
            return SymbolicBytes([SymbolicInt(v) for v in vs])

    def bytes_in(self, n: int, allowed, name: str = "b"):
        """n symbolic bytes, each constrained (in the solver, without forking) to the given byte values."""
        import z3
        from crosshair.libimpl.builtinslib import SymbolicBytes, SymbolicInt
        from crosshair.tracers import NoTracing

        with NoTracing():
            vs = [self._var(f"{name}{i}", 0, 255) for i in range(n)]
            for v in vs:
                self.space.add(z3.Or(*[v == int(a) for a in allowed]))
            self.created.append(("bytes", vs))
            if n == 0:
                return b""
            return SymbolicBytes([SymbolicInt(v) for v in vs])

    def ascii(self, n: int, name: str = "s", hi: int = 127):
        from crosshair.libimpl.builtinslib import LazyIntSymbolicStr, SymbolicInt
        from crosshair.tracers import NoTracing

        with NoTracing():
            vs = [self._var(f"{name}{i}", 0, hi) for i in range(n)]
            self.created.append(("str", vs))
            if n == 0:
                return ""
            return LazyIntSymbolicStr([SymbolicInt(v) for v in vs])

    def int(self, lo: int, hi: int, name: str = "i"):
        from crosshair.libimpl.builtinslib import SymbolicInt
        from crosshair.tracers import NoTracing

        with NoTracing():
            if lo == hi:
                self.created.append(("int", lo))
                return lo
            v = self._var(name, lo, hi)
            self.created.append(("int", v))
            return SymbolicInt(v)

    def choice(self, n: int, name: str = "ch"):
        return self.int(0, n - 1, name)

    def bool(self, name: str = "f"):
        return self.int(0, 1, name) == 1

    def real_bytearray(self, n: int):
        """a REAL bytearray (not a proxy): needed when the buffer is handed to C code that writes into it (ssl, sockets)"""
        from crosshair.tracers import NoTracing

        with NoTracing():
            return bytearray(n)

    def pick(self, options, name: str = "pick"):
        """one of the concrete `options`, chosen by the solver; the returned value is CONCRETE on each path (forks),
        so it may safely flow into C code such as asyncio's timer heap"""
        c = self.choice(len(options), name)
        for i, v in enumerate(options):
            if c == i:
                return v
        raise AssertionError("unreachable")

    def assume(self, cond) -> None:
        if not cond:
            raise Precondition()

    # -- model peek -------------------------------------------------------------------
    def peek(self):
        """Return the witness (list of (kind, value)) for the current path, or None."""
        import z3
        from crosshair.tracers import NoTracing

        with NoTracing():
            s = self.space.solver
            r = s.check()
            if str(r) != "sat":
                return None, None
            m = s.model()

            def ev(x):
                if isinstance(x, int):
                    return x
                return m.eval(x, model_completion=True).as_long()

            out = []
            for kind, payload in self.created:
                if kind == "int":
                    out.append((kind, ev(payload)))
                else:
                    out.append((kind, [ev(v) for v in payload]))
            return out, m


def model_eval(x, m):
    """Evaluate a possibly-symbolic int/bool/str-tag structure in model m (tracing must be off)."""
    from crosshair.libimpl import builtinslib as B

    if isinstance(x, (B.SymbolicInt, B.SymbolicBool)):
        v = m.eval(x.var, model_completion=True)
        import z3

        if z3.is_int_value(v):
            return v.as_long()
        return bool(z3.is_true(v))
    if isinstance(x, (list, tuple)):
        return tuple(model_eval(i, m) for i in x)
    if isinstance(x, (int, str, bool, bytes)) or x is None:
        return x
    if isinstance(x, B.SymbolicBytes) or isinstance(x, B.SymbolicByteArray):
        inner = x.inner
        if isinstance(inner, (list, tuple)):
            return bytes(model_eval(i, m) for i in inner)
    raise TypeError(f"model_eval: unsupported skeleton element {type(x).__name__}")


def norm(x):
    if isinstance(x, (list, tuple)):
        return tuple(norm(i) for i in x)
    if isinstance(x, bool):
        return int(x)
    return x


# --------------------------------------------------------------------------------------
# z3 accounting

_Z3 = {"checks": 0, "time": 0.0, "unknown": 0}
_REALIZE = {"n": 0, "where": {}}


def _instrument_realize():
    """Count CrossHair value realisations (a symbolic value enumerated one concrete value at a time).
    Sound but a sign that some operation is not modelled symbolically (silent enumeration)."""
    import traceback

    from crosshair.statespace import StateSpace

    if getattr(StateSpace, "_sx_wrapped", False):
        return
    orig = StateSpace.find_model_value

    def find_model_value(self, expr):
        _REALIZE["n"] += 1
        if _REALIZE["n"] <= 2000:
            fr = [f for f in traceback.extract_stack(limit=14) if "/crosshair/" not in f.filename and "/sx/engine.py" not in f.filename]
            key = ";".join(f"{f.filename.rsplit('/', 1)[-1]}:{f.lineno}" for f in fr[-2:])
            _REALIZE["where"][key] = _REALIZE["where"].get(key, 0) + 1
        return orig(self, expr)

    StateSpace.find_model_value = find_model_value
    StateSpace._sx_wrapped = True


def _instrument_z3():
    import z3

    if getattr(z3.Solver, "_sx_wrapped", False):
        return
    orig = z3.Solver.check

    def check(self, *a):
        t = time.perf_counter()
        try:
            r = orig(self, *a)
        finally:
            _Z3["time"] += time.perf_counter() - t
            _Z3["checks"] += 1
        if str(r) == "unknown":
            _Z3["unknown"] += 1
        return r

    z3.Solver.check = check
    z3.Solver._sx_wrapped = True


# --------------------------------------------------------------------------------------
# exploration loop (modelled on crosshair.core.explore_paths)


@dataclasses.dataclass
class ShardResult:
    verdict: str = "inconclusive"  # confirmed | refuted | inconclusive | vacuous
    paths: int = 0
    paths_confirmed: int = 0
    paths_ignored: int = 0
    paths_unknown: int = 0
    paths_failed: int = 0
    divergences: int = 0
    exhausted: bool = False
    z3_checks: int = 0
    z3_time: float = 0.0
    z3_unknown: int = 0
    wall: float = 0.0
    cpu: float = 0.0
    tags: dict = dataclasses.field(default_factory=dict)
    samples: list = dataclasses.field(default_factory=list)
    counterexamples: list = dataclasses.field(default_factory=list)
    unknown_reasons: dict = dataclasses.field(default_factory=dict)
    errors: list = dataclasses.field(default_factory=list)
    nontrivial_keys: int = 0
    stop_reason: str = ""
    realizations: int = 0
    realization_sites: dict = dataclasses.field(default_factory=dict)


class HangDetected(BaseException):
    """The concrete run of a scenario did not finish within the watchdog time (BaseException: must not be swallowed
    by the `except Exception` clauses of the code under test)."""


def _arm_watchdog(seconds: float) -> None:
    """Wall-clock watchdog for one symbolic path: CrossHair only checks its path timeout when the solver is consulted,
    so a loop over fully concretised values would never be interrupted.  Raises PathTimeout inside the path."""
    import signal
    import threading

    if threading.current_thread() is not threading.main_thread():
        return
    if seconds <= 0:
        signal.setitimer(signal.ITIMER_REAL, 0)
        return

    def on_alarm(signum, frame):
        from crosshair.util import PathTimeout

        raise PathTimeout("sx wall-clock watchdog")

    signal.signal(signal.SIGALRM, on_alarm)
    signal.setitimer(signal.ITIMER_REAL, seconds)


def run_concrete(scenario: Callable, witness: list, watchdog_s: float = 0) -> Outcome | None:
    """Run the scenario on a concrete witness. None => precondition not met.
    With watchdog_s > 0 a run that does not finish in time yields Outcome(ok=False, tags=('hang',))."""
    import signal
    import threading

    use_alarm = watchdog_s > 0 and threading.current_thread() is threading.main_thread()
    if use_alarm:

        def on_alarm(signum, frame):
            raise HangDetected()

        old = signal.signal(signal.SIGALRM, on_alarm)
        signal.setitimer(signal.ITIMER_REAL, watchdog_s)
    try:
        return scenario(ConcreteSym(witness))
    except Precondition:
        return None
    except HangDetected:
        return Outcome(ok=False, skeleton=("hang",), tags=("hang",), detail={"hang": f"concrete run did not finish within {watchdog_s} s (call never returns)"})
    finally:
        if use_alarm:
            signal.setitimer(signal.ITIMER_REAL, 0)
            signal.signal(signal.SIGALRM, old)


def explore(
    scenario: Callable,
    *,
    budget_s: float,
    per_path_timeout: float = 30.0,
    max_samples: int = 40,
    max_counterexamples: int = 3,
    validate_every: int = 1,
    stop_on_first: bool = True,
    hang_check_s: float = 10.0,
) -> ShardResult:
    from crosshair import core as C
    from crosshair.condition_parser import condition_parser
    from crosshair.options import DEFAULT_OPTIONS, AnalysisOptionSet
    from crosshair.statespace import (
        CallAnalysis,
        RootNode,
        StateSpace,
        StateSpaceContext,
        VerificationStatus,
    )
    from crosshair.tracers import COMPOSITE_TRACER, NoTracing, ResumedTracing
    from crosshair.util import IgnoreAttempt, UnexploredPath

    from . import models

    models.apply()
    _instrument_z3()
    _instrument_realize()
    z0 = dict(_Z3)
    r0 = _REALIZE["n"]
    _REALIZE["where"] = {}

    options = DEFAULT_OPTIONS.overlay(AnalysisOptionSet(per_path_timeout=per_path_timeout))
    res = ShardResult()
    search_root = RootNode()
    t_wall = time.perf_counter()
    t_cpu = time.process_time()
    nontrivial: set = set()
    exhausted = False

    while True:
        itr_start = time.process_time()
        if time.perf_counter() - t_wall > budget_s:
            res.stop_reason = "budget"
            break
        space = StateSpace(
            execution_deadline=itr_start + per_path_timeout,
            model_check_timeout=per_path_timeout / 2,
            search_root=search_root,
        )
        status = None
        res.paths += 1
        with condition_parser(options.analysis_kind), C.Patched(), COMPOSITE_TRACER, NoTracing(), StateSpaceContext(space):
            S = SymbolicSym(space)
            _arm_watchdog(per_path_timeout + 5.0)
            try:
                out = None
                user_exc = None
                with C.ExceptionFilter() as efilter, ResumedTracing():
                    try:
                        out = scenario(S)
                        okb = bool(out.ok)  # decide the assertion on this path (may fork)
                    except Precondition:
                        raise IgnoreAttempt("precondition")
                if efilter.ignore:
                    raise IgnoreAttempt("filtered")
                if efilter.user_exc is not None:
                    user_exc = efilter.user_exc
                # ---- path completed: validate against a concrete run -------------------
                witness, m = S.peek()
                if witness is None:
                    res.unknown_reasons["peek-not-sat"] = res.unknown_reasons.get("peek-not-sat", 0) + 1
                    status = VerificationStatus.UNKNOWN
                elif user_exc is not None:
                    exc, stack = user_exc
                    res.errors.append(
                        {"kind": "scenario-exception", "exc": repr(exc)[:300], "witness": _jsonable(witness), "tb": str(stack)[-1500:]}
                    )
                    status = VerificationStatus.UNKNOWN
                else:
                    sym_skel = norm(model_eval(out.skeleton, m))
                    conc = None
                    if res.paths % validate_every == 0 or not okb:
                        try:
                            conc = run_concrete(scenario, witness)
                        except Exception as e:  # noqa: BLE001  (harness error on concrete side)
                            res.errors.append({"kind": "concrete-exception", "exc": repr(e)[:300], "witness": _jsonable(witness), "tb": traceback.format_exc()[-1500:]})
                            conc = "error"
                    if conc == "error":
                        status = VerificationStatus.UNKNOWN
                    elif conc is None and (res.paths % validate_every == 0 or not okb):
                        res.divergences += 1
                        res.errors.append({"kind": "divergence-precondition", "witness": _jsonable(witness)})
                        status = VerificationStatus.UNKNOWN
                    else:
                        if conc is not None:
                            conc_ok = bool(conc.ok)
                            conc_skel = norm(conc.skeleton)
                            if conc_ok != okb or conc_skel != sym_skel:
                                res.divergences += 1
                                res.errors.append(
                                    {
                                        "kind": "divergence",
                                        "witness": _jsonable(witness),
                                        "sym": [okb, repr(sym_skel)[:400]],
                                        "conc": [conc_ok, repr(conc_skel)[:400]],
                                    }
                                )
                                status = VerificationStatus.UNKNOWN
                        if status is None:
                            for t in out.tags:
                                res.tags[t] = res.tags.get(t, 0) + 1
                            key = (tuple(out.tags), sym_skel)
                            if out.tags:
                                nontrivial.add(key)
                            if len(res.samples) < max_samples and (res.paths <= max_samples // 2 or res.paths % 7 == 0):
                                res.samples.append({"witness": _jsonable(witness), "tags": list(out.tags), "ok": okb})
                            if okb:
                                status = VerificationStatus.CONFIRMED
                                res.paths_confirmed += 1
                            else:
                                res.paths_failed += 1
                                if len(res.counterexamples) < max_counterexamples:
                                    res.counterexamples.append(
                                        {"witness": _jsonable(witness), "tags": list(out.tags), "detail": repr(conc.detail)[:2000] if conc is not None else None}
                                    )
                                status = VerificationStatus.CONFIRMED if not stop_on_first else VerificationStatus.REFUTED
            except IgnoreAttempt:
                status = None
                res.paths_ignored += 1
            except UnexploredPath as e:
                status = VerificationStatus.UNKNOWN
                k = type(e).__name__ + ":" + str(e)[:80]
                res.unknown_reasons[k] = res.unknown_reasons.get(k, 0) + 1
                _arm_watchdog(0)
                if type(e).__name__ == "PathTimeout" and hang_check_s > 0 and res.paths_failed == 0:
                    # a path that never ends: does a concrete input on this path hang the real code too?
                    try:
                        witness, _m = S.peek()
                    except BaseException:  # noqa: BLE001
                        witness = None
                    if witness is not None:
                        conc = run_concrete(scenario, witness, watchdog_s=hang_check_s)
                        if conc is not None and "hang" in conc.tags:
                            res.paths_failed += 1
                            res.counterexamples.append({"witness": _jsonable(witness), "tags": ["hang"], "detail": repr(conc.detail)})
                            status = VerificationStatus.REFUTED
            finally:
                _arm_watchdog(0)
            if status == VerificationStatus.UNKNOWN:
                res.paths_unknown += 1
            _analysis, exhausted = space.bubble_status(CallAnalysis(status))
        if res.paths_failed and stop_on_first:
            res.stop_reason = "counterexample"
            break
        if exhausted:
            res.stop_reason = "exhausted"
            break

    res.exhausted = bool(exhausted)
    res.wall = time.perf_counter() - t_wall
    res.cpu = time.process_time() - t_cpu
    res.z3_checks = _Z3["checks"] - z0["checks"]
    res.z3_time = _Z3["time"] - z0["time"]
    res.z3_unknown = _Z3["unknown"] - z0["unknown"]
    res.nontrivial_keys = len(nontrivial)
    res.realizations = _REALIZE["n"] - r0
    res.realization_sites = dict(sorted(_REALIZE["where"].items(), key=lambda kv: -kv[1])[:8])
    if res.paths_failed:
        res.verdict = "refuted"
    elif res.divergences or res.errors:
        res.verdict = "inconclusive"
    elif exhausted and res.paths_unknown == 0:
        res.verdict = "confirmed" if res.paths_confirmed > 0 else "vacuous"
    else:
        res.verdict = "inconclusive"
    return res


def _jsonable(w):
    return [[k, v] for k, v in w]
