"""SX engine: symbolic execution of the real EasyNetwork code with CrossHair + z3."""
