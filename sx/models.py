"""Model supplement for CrossHair 0.0.110 (see DESIGN.md 2.1).

CrossHair's models of a few builtins are wrong or missing for what EasyNetwork does with
buffers.  Every patch here is differentially self-tested against the real builtins by
``sx.selftest`` on every run; a mismatch aborts the check with the harness-error code.

Patches
-------
* ``SymbolicMemoryView.__getitem__(slice)``: keep ``nbytes``/``shape`` in sync with the slice.
* ``SymbolicMemoryView.__setitem__``: correct handling of open slices / negative indexes.
* ``SymbolicMemoryView.__enter__/__exit__``, ``.cast("B")``, ``.tobytes``, ``__eq__``.
* ``bytearray(int)``: symbolic-capable zero-filled buffer (bytes written into it stay symbolic).
* ``str(buffer, encoding[, errors])`` on a symbolic buffer -> ``buffer.decode(...)``.
* symbolic int compared / added / subtracted with a concrete float: decided in integer arithmetic (no z3 FP).
* ``x in symbolic_bytes`` / ``symbolic_bytes.isspace()``: element-wise instead of realising the buffer.
"""

from __future__ import annotations

_APPLIED = False


def apply() -> None:
    global _APPLIED
    if _APPLIED:
        return
    _APPLIED = True

    import crosshair.core_and_libs  # noqa: F401  (populates the patch registry)
    from crosshair.libimpl import builtinslib as _b
    from crosshair.tracers import NoTracing, ResumedTracing
    from crosshair.core import _PATCH_REGISTRATIONS as _REG
    from crosshair.core import realize
    from crosshair.core import deep_realize as _deep_realize

    SMV = _b.SymbolicMemoryView

    _orig_getitem = SMV.__getitem__

    def _getitem(self, key):
        ret = _orig_getitem(self, key)
        if isinstance(key, slice):
            with NoTracing():
                if isinstance(ret, SMV):
                    with ResumedTracing():
                        n = len(ret._sliced)
                    ret.nbytes = n
                    ret.shape = (n,)
        return ret

    SMV.__getitem__ = _getitem

    def _setitem(self, key, value):
        if self.readonly:
            raise TypeError("cannot modify read-only memory")
        obj, sliced = self.obj, self._sliced
        n = len(sliced)
        if isinstance(key, slice):
            start, stop, step = key.indices(n)
            if step != 1:
                raise NotImplementedError("memoryview slice assignment with step")
            if stop < start:
                stop = start
            if len(value) != stop - start:
                raise ValueError("memoryview assignment: lvalue and rvalue have different structures")
            base = sliced.start
            for i in range(stop - start):
                obj[base + start + i] = value[i]
        else:
            if key < 0:
                key += n
            if not (0 <= key < n):
                raise IndexError("index out of bounds on dimension 1")
            obj[sliced.start + key] = value

    SMV.__setitem__ = _setitem

    def _enter(self):
        return self

    def _exit(self, *a):
        return None

    def _cast(self, fmt, *a):
        if fmt == "B" and not a:
            return self
        return realize(self).cast(fmt, *map(realize, a))

    SMV.__enter__ = _enter
    SMV.__exit__ = _exit
    SMV.cast = _cast

    def _toreadonly(self):
        with NoTracing():
            cpy = SMV(self.obj)
            cpy._sliced = self._sliced
            cpy.nbytes = self.nbytes
            cpy.shape = self.shape
            cpy.readonly = True
            return cpy

    SMV.toreadonly = _toreadonly

    # `needle in symbolic_bytes` realises the whole buffer in CrossHair (AbcString.__contains__ -> self.data)
    def _bytes_contains(self, other):
        with NoTracing():
            is_int = isinstance(other, (int, _b.SymbolicInt))
        if is_int:
            for b in self:
                if b == other:
                    return True
            return False
        if len(other) == 0:
            return True
        return self.find(other) >= 0

    def _bytes_isspace(self):
        if len(self) == 0:
            return False
        for b in self:
            if not (b == 32 or (9 <= b and b <= 13)):
                return False
        return True

    _b.BytesLike.__contains__ = _bytes_contains
    _b.BytesLike.isspace = _bytes_isspace

    # bytes(symbolic memoryview) realises in CrossHair's _bytes; keep it symbolic.  (Body of CrossHair's own
    # _bytes repeated: a patch may only reach the real builtin from its own code object.)
    def _bytes2(*a):
        with NoTracing():
            if len(a) != 1:
                return bytes(*a)  # type: ignore
            (source,) = a
            if isinstance(source, SMV):
                # snapshot (the view aliases a mutable buffer)
                return _b.SymbolicBytes(list(_b.tracing_iter(source._sliced)))
            if isinstance(source, _b.SymbolicByteArray):
                return _b.SymbolicBytes(source.inner)
            elif isinstance(source, _b.SymbolicBytes):
                return _b.SymbolicBytes(source.inner)
            if _b.is_iterable(source):
                source = list(_b.tracing_iter(source))
                if any(isinstance(i, _b.SymbolicIntable) for i in source):
                    return _b.SymbolicBytes(source)
            return bytes(source)

    _REG[bytes] = _bytes2

    # f"{exc}" / format(exc): CrossHair deep-realises the whole exception object (including error_info payloads
    # that hold symbolic packet bytes) just to format its message.  BaseException.__str__ only looks at args.
    def _format2(obj, format_spec=""):
        with NoTracing():
            if isinstance(format_spec, _b.AnySymbolicStr):
                format_spec = realize(format_spec)
            if format_spec in ("", "s") and isinstance(obj, _b.AnySymbolicStr):
                return obj
            if format_spec in ("", "s") and isinstance(obj, BaseException) and type(obj).__str__ is BaseException.__str__:
                args = obj.args
                if len(args) == 0:
                    return ""
                if len(args) == 1:
                    with ResumedTracing():
                        return str(args[0])
            obj = _deep_realize(obj)
            result = _b.invoke_dunder(obj, "__format__", format_spec)
            if result is not _b._MISSING:
                return result
        return format(obj, format_spec)

    _REG[format] = _format2

    # symbolic int <op> concrete float: CrossHair promotes to z3 floating point (5-15 s per query, often `unknown`).
    # For an *integer* x and a concrete float f the result is decided exactly in integer arithmetic.
    import math as _math
    import operator as _op

    _orig_binop_internal = _b.numeric_binop_internal
    _CMP = {_op.lt, _op.le, _op.gt, _op.ge, _op.eq, _op.ne}
    _SWAP = {_op.lt: _op.gt, _op.le: _op.ge, _op.gt: _op.lt, _op.ge: _op.le, _op.eq: _op.eq, _op.ne: _op.ne}

    def _int_vs_float(op, x, f):
        """x: SymbolicInt, f: concrete float, result of op(x, f) (x on the left); None = not handled"""
        if op in _CMP:
            if _math.isnan(f):
                return op is _op.ne
            if _math.isinf(f):
                big = f > 0
                return {_op.lt: big, _op.le: big, _op.gt: not big, _op.ge: not big, _op.eq: False, _op.ne: True}[op]
            if f == _math.floor(f):
                return ("int", op, int(f))
            lo = _math.floor(f)  # lo < f < lo+1
            if op is _op.lt or op is _op.le:
                return ("int", _op.le, lo)
            if op is _op.gt or op is _op.ge:
                return ("int", _op.ge, lo + 1)
            return op is _op.ne
        if op in (_op.add, _op.sub):
            if _math.isnan(f):
                return f
            if _math.isinf(f):
                return f if op is _op.add else -f
            if f == _math.floor(f):
                return ("int", op, int(f))
        return None

    def _binop_internal2(op, a, b):
        a_sym = isinstance(a, _b.SymbolicInt)
        b_sym = isinstance(b, _b.SymbolicInt)
        if a_sym and type(b) is float:
            r = _int_vs_float(op, a, b)
            if isinstance(r, tuple):
                return _orig_binop_internal(r[1], a, r[2])
            if r is not None:
                return r
        elif b_sym and type(a) is float:
            if op in _CMP:
                r = _int_vs_float(_SWAP[op], b, a)
                if isinstance(r, tuple):
                    return _orig_binop_internal(r[1], b, r[2])
                if r is not None:
                    return r
            elif op is _op.add:
                r = _int_vs_float(op, b, a)
                if isinstance(r, tuple):
                    return _orig_binop_internal(op, b, r[2])
                if r is not None:
                    return r
            elif op is _op.sub:  # a - b with concrete float a
                if _math.isnan(a) or _math.isinf(a):
                    return a
                if a == _math.floor(a):
                    return _orig_binop_internal(op, int(a), b)
        return _orig_binop_internal(op, a, b)

    _b.numeric_binop_internal = _binop_internal2

    # map() is a C iterator: the mapped function is then called outside the tracer and symbolic arguments get
    # realised (easynetwork's iter_bytes = map(int.to_bytes, buffer)).  Model: the equivalent lazy generator.
    def _map2(func, *iterables):
        if len(iterables) == 0:
            raise TypeError("map() must have at least two arguments.")
        if len(iterables) == 1:
            return (func(x) for x in iterables[0])
        return (func(*xs) for xs in zip(*iterables))

    _REG[map] = _map2

    # bytearray(n:int) -> symbolic-capable zero filled buffer.  (Body of CrossHair's own _bytearray is
    # repeated here: a patch may only reach the real builtin from its *own* code object.)
    def _bytearray2(*a):
        if len(a) <= 1:
            with NoTracing():
                if len(a) == 0:
                    return _b.SymbolicByteArray([])
                (src,) = a
                if type(src) is int and 0 <= src <= 4096:
                    return _b.SymbolicByteArray([0] * src)
                byte_seq = _b.buffer_to_byte_seq(src)
                if byte_seq is not None:
                    return _b.SymbolicByteArray(byte_seq)
        return bytearray(*map(realize, a))

    _REG[bytearray] = _bytearray2

    # str(buffer, encoding[, errors]) -> buffer.decode(encoding[, errors]) when buffer is symbolic
    def _str2(*a, **kw):
        with NoTracing():
            if len(a) == 1 and not kw:
                (self,) = a
                if isinstance(self, _b.AnySymbolicStr):
                    return self
                with ResumedTracing():
                    return _b.invoke_dunder(self, "__str__")
            if len(a) >= 2 and not kw and isinstance(a[0], (_b.SymbolicBytes, _b.SymbolicByteArray, SMV)):
                src = a[0]
                is_mv = isinstance(src, SMV)
                with ResumedTracing():
                    if is_mv:
                        src = src.tobytes()
                    return src.decode(*a[1:])
        return str(*a, **kw)

    _REG[str] = _str2
