"""Property runner: shards -> process pool -> clean replays -> known findings -> evidence -> exit code.

Exit codes: 0 property held on everything explored (evidence says how much was exhausted)
            1 reproduced violation not listed in known_findings.json  (prints VIOLATION line)
            3 harness / engine error (non-reproducing counterexample, divergence, self-test failure, vacuity)
"""

from __future__ import annotations

import argparse
import concurrent.futures as cf
import hashlib
import importlib
import json
import os
import shutil
import subprocess
import sys
import tempfile
import time

HERE = os.path.dirname(os.path.dirname(os.path.abspath(__file__)))
PY = os.path.join(HERE, ".venv", "bin", "python")
EXIT_OK, EXIT_VIOLATION, EXIT_HARNESS = 0, 1, 3


def _env():
    env = dict(os.environ)
    env["PYTHONPATH"] = HERE + os.pathsep + env.get("PYTHONPATH", "")
    env["PYTHONHASHSEED"] = "0"
    env.setdefault("EASYNETWORK_VERIF", "1")
    return env


TIER_DEADLINE_S = {"quick": 1500.0, "thorough": float(os.environ.get("VERIF_THOROUGH_WALL", "600"))}
TIER_SHARD_BUDGET_S = {"quick": 1e9, "thorough": float(os.environ.get("VERIF_THOROUGH_SHARD", "300"))}


def run_shard(spec, scratch, grace=20.0, not_after=None):
    if not_after is not None and time.time() > not_after:
        # the tier's wall-time budget is used up: this shard is not explored (reported as such, never as a pass)
        return {"name": spec["name"], "verdict": "inconclusive", "stop_reason": "not-run (tier wall-time budget)", "wall": 0.0, "errors": [], "paths": 0}
    sp = os.path.join(scratch, spec["name"].replace("/", "_") + ".spec.json")
    op = os.path.join(scratch, spec["name"].replace("/", "_") + ".out.json")
    json.dump(spec, open(sp, "w"))
    t0 = time.time()
    try:
        p = subprocess.run(
            [PY, "-m", "sx.shard", sp, op],
            cwd=HERE,
            env=_env(),
            stdout=subprocess.PIPE,
            stderr=subprocess.STDOUT,
            timeout=float(spec.get("budget", 60)) + float(spec.get("per_path_timeout", 30)) + grace,
        )
        tail = p.stdout.decode("utf-8", "replace")[-2000:]
    except subprocess.TimeoutExpired:
        return {"name": spec["name"], "verdict": "inconclusive", "stop_reason": "killed", "wall": time.time() - t0, "errors": [], "paths": 0}
    if not os.path.exists(op):
        return {"name": spec["name"], "verdict": "error", "errors": [{"kind": "no-output", "tb": tail}], "wall": time.time() - t0, "paths": 0}
    d = json.load(open(op))
    d["stdout_tail"] = tail[-400:] if tail.strip() else ""
    return d


def clean_replay(doc, scratch, trace_out=None, timeout=300):
    """Run sx.replay in a fresh plain interpreter. Returns parsed JSON (or list)."""
    fd, path = tempfile.mkstemp(suffix=".json", dir=scratch)
    with os.fdopen(fd, "w") as f:
        json.dump(doc, f)
    cmd = [PY, "-m", "sx.replay", path]
    if trace_out:
        cmd += ["--trace-functions", trace_out]
    p = subprocess.run(cmd, cwd=HERE, env=_env(), stdout=subprocess.PIPE, stderr=subprocess.PIPE, timeout=timeout)
    if p.returncode != 0:
        return {"ok": None, "detail": "replay crashed: " + p.stderr.decode("utf-8", "replace")[-1500:], "crash": True}
    lines = [l for l in p.stdout.decode().splitlines() if l.strip()]
    return json.loads(lines[-1])


def load_known(pid):
    path = os.path.join(HERE, "known_findings.json")
    if not os.path.exists(path):
        return []
    doc = json.load(open(path))
    return [f for f in doc.get("findings", []) if f.get("property") == pid]


def main(argv=None):
    ap = argparse.ArgumentParser()
    ap.add_argument("pid")
    ap.add_argument("--tier", default=os.environ.get("VERIF_TIER", "quick"), choices=["quick", "thorough"])
    ap.add_argument("--replay", default=None)
    ap.add_argument("--jobs", type=int, default=int(os.environ.get("VERIF_JOBS", "0")) or (os.cpu_count() or 4))
    ap.add_argument("--only", default=None, help="substring filter on shard names (debug)")
    ap.add_argument("--no-evidence", action="store_true")
    args = ap.parse_args(argv)
    pid = args.pid.upper()
    seed = int(os.environ.get("VERIF_SEED", "0") or 0)
    mod = importlib.import_module("props." + pid.lower())

    scratch = tempfile.mkdtemp(prefix=f"verif-{pid}-")
    try:
        if args.replay:
            return do_replay(pid, args.replay, scratch)
        return do_check(pid, mod, args, seed, scratch)
    finally:
        shutil.rmtree(scratch, ignore_errors=True)


def do_replay(pid, path, scratch):
    doc = json.load(open(path))
    r = clean_replay(doc, scratch)
    print(json.dumps(r, indent=1))
    if r.get("ok") is False:
        print(f"replay: violation of {pid} REPRODUCES on the current tree")
        return EXIT_VIOLATION
    if r.get("ok") is True:
        print(f"replay: does not reproduce (property holds on this input)")
        return EXIT_OK
    print("replay: inconclusive (harness)")
    return EXIT_HARNESS


def do_check(pid, mod, args, seed, scratch):
    t0 = time.time()
    tier = args.tier
    all_known = load_known(pid)
    known = [f for f in all_known if f.get("status") == "open"]
    fixed = [f for f in all_known if f.get("status") == "fixed"]
    exclude = sorted({f["signature"] for f in known if f.get("signature")})
    shards = mod.shards(tier)
    if tier == "thorough":
        # thorough = everything the quick tier explores (run first, with its own budgets) + the deeper shards,
        # cheapest first, until the wall-time budget is used up
        quick = mod.shards("quick")
        qparams = {s["name"]: json.dumps(s.get("params", {}), sort_keys=True, default=str) for s in quick}
        for s in quick:
            s["_quick"] = True
        deeper = []
        for s in shards:
            if s["name"] in qparams:
                if json.dumps(s.get("params", {}), sort_keys=True, default=str) == qparams[s["name"]]:
                    continue  # identical to a quick shard
                s["name"] = s["name"] + "/deep"  # same name, larger parameters
            deeper.append(s)
        shards = quick + deeper
    for s in shards:
        s.setdefault("params", {})
        if exclude and s.get("accepts_exclude", False):
            s["params"]["exclude"] = exclude
        s.pop("accepts_exclude", None)
    if args.only:
        shards = [s for s in shards if args.only in s["name"]]
    if tier == "quick":
        shards.sort(key=lambda s: -float(s.get("cost", s.get("budget", 60))))  # longest first: best packing
        # the per-shard budgets in props/ are sized for an idle 16-core machine; leave head-room for a loaded one
        scale = float(os.environ.get("VERIF_QUICK_BUDGET_SCALE", "2"))
        for s in shards:
            s["budget"] = float(s.get("budget", 60)) * scale
    else:
        shards.sort(key=lambda s: (0 if s.get("_quick") else 1, float(s.get("cost", s.get("budget", 60)))))  # quick shards, then cheapest first
        for s in shards:
            s["budget"] = min(float(s.get("budget", 60)), TIER_SHARD_BUDGET_S[tier])
    for s in shards:
        s.pop("_quick", None)
    not_after = t0 + TIER_DEADLINE_S[tier]
    print(f"[{pid}] tier={tier} shards={len(shards)} jobs={args.jobs} known_open={len(known)}", flush=True)

    # 0. model supplement self-test (fail => harness error)
    try:
        st = subprocess.run([PY, "-m", "sx.selftest"], cwd=HERE, env=_env(), stdout=subprocess.PIPE, stderr=subprocess.STDOUT, timeout=300)
    except subprocess.TimeoutExpired:
        print(f"[{pid}] HARNESS-ERROR: model supplement self-test timed out")
        return EXIT_HARNESS
    if st.returncode != 0:
        print(st.stdout.decode("utf-8", "replace")[-3000:])
        print(f"[{pid}] HARNESS-ERROR: model supplement self-test failed")
        return EXIT_HARNESS
    selftest_line = st.stdout.decode().strip().splitlines()[-1] if st.stdout.strip() else ""

    # 1. known findings: pinned replays
    known_lines = []
    for f in known:
        r = clean_replay(f["replay"], scratch)
        if r.get("ok") is False:
            line = f"KNOWN-FINDING: property={pid} {f['id']}: {f['what']}"
        else:
            line = f"[{pid}] note: known finding {f['id']} no longer reproduces on this tree ({r.get('ok')})"
        known_lines.append(line)
        print(line, flush=True)

    # 1b. fixed findings: pinned regression replays (a fixed entry suppresses nothing)
    regressions = []
    for f in fixed:
        if not f.get("replay"):
            continue
        r = clean_replay(f["replay"], scratch)
        if r.get("ok") is False:
            os.makedirs(os.path.join(HERE, "replays"), exist_ok=True)
            rp = os.path.join(HERE, "replays", f"{pid}-regression-{f['id']}.json")
            json.dump(dict(f["replay"], detail=r.get("detail")), open(rp, "w"), indent=1)
            regressions.append((f"fixed-finding {f['id']} returned", rp, r.get("detail")))
        elif r.get("ok") is None:
            print(f"[{pid}] note: regression replay of fixed finding {f['id']} inconclusive: {str(r.get('detail'))[:300]}")

    # 2. shards
    results = []
    with cf.ThreadPoolExecutor(max_workers=args.jobs) as ex:
        futs = {ex.submit(run_shard, s, scratch, 20.0, not_after): s for s in shards}
        for fu in cf.as_completed(futs):
            r = fu.result()
            r["spec"] = futs[fu]
            results.append(r)
            print(
                f"  shard {r['name']}: {r.get('verdict')} paths={r.get('paths', 0)} conf={r.get('paths_confirmed', 0)} unk={r.get('paths_unknown', 0)} "
                f"div={r.get('divergences', 0)} rlz={r.get('realizations', 0)} z3={r.get('z3_checks', 0)}/{r.get('z3_time', 0):.1f}s wall={r.get('wall', 0):.1f}s {r.get('stop_reason', '')}",
                flush=True,
            )
    results.sort(key=lambda r: r["name"])

    # 3. counterexamples -> clean replay
    violations = list(regressions)
    harness_errors = []
    ks_failed = []
    for r in results:
        if r.get("kind") == "ks":
            if r.get("verdict") != "confirmed":
                ks_failed.append((r["name"], r.get("ks_failed") or r.get("errors")))
            continue
        if r.get("verdict") == "error":
            harness_errors.append((r["name"], r.get("errors")))
        for e in r.get("errors", []) or []:
            if e.get("kind", "").startswith("divergence") or e.get("kind") in ("scenario-exception", "concrete-exception"):
                harness_errors.append((r["name"], e))
        if r.get("verdict") == "vacuous":
            harness_errors.append((r["name"], "vacuous: no path satisfied the assumptions"))
        for cx in r.get("counterexamples", []) or []:
            doc = {"property": pid, "shard": r["spec"], "witness": cx["witness"]}
            rr = clean_replay(doc, scratch)
            if rr.get("ok") is False:
                h = hashlib.sha1(json.dumps(doc, sort_keys=True).encode()).hexdigest()[:10]
                os.makedirs(os.path.join(HERE, "replays"), exist_ok=True)
                rp = os.path.join(HERE, "replays", f"{pid}-{h}.json")
                doc["detail"] = rr.get("detail")
                json.dump(doc, open(rp, "w"), indent=1)
                violations.append((r["name"], rp, rr.get("detail")))
            else:
                harness_errors.append((r["name"], {"kind": "non-reproducing-counterexample", "witness": cx["witness"], "replay": rr}))

    # 4. which repo functions did the explored paths execute?  (clean interpreter, sys.setprofile)
    fn_out = os.path.join(scratch, "functions.json")
    docs = []
    for r in results:
        for smp in (r.get("samples") or [])[:6]:
            if "witness" in smp:
                docs.append({"property": pid, "shard": r["spec"], "witness": smp["witness"]})
    functions = []
    if docs:
        try:
            clean_replay(docs[:150], scratch, trace_out=fn_out, timeout=600)
            functions = json.load(open(fn_out))
        except Exception as e:  # noqa: BLE001
            functions = [f"<function trace failed: {e!r}>"]

    # 5. evidence
    wall = time.time() - t0
    n_conf = sum(1 for r in results if r.get("verdict") == "confirmed")
    paths = sum(r.get("paths", 0) for r in results)
    ev = {
        "property_id": pid,
        "tier": tier,
        "seed": seed,
        "level": "other",
        "coverage": {
            "explanation": (
                "Bounded symbolic execution of the real /repo code (CrossHair proxies + z3): each shard fixes container lengths and "
                "configuration, keeps contents / sizes / cut positions / event choices symbolic, and explores every feasible path; "
                "'confirmed' = search tree exhausted with the assertion valid on every path (each path = a set of inputs), every path "
                "validated by a concrete re-run of a solver model on real builtins. Bounds and what lies outside: see 'bounds'."
            ),
            "evaluations": paths,
            "distinct_nontrivial": sum(r.get("nontrivial_keys", 0) for r in results),
            "rule": "one evaluation = one symbolic path (a set of inputs sharing a path condition); non-trivial = path on which a tagged event of the property occurred ("
            + getattr(mod, "NONTRIVIAL_RULE", "see tags")
            + "), distinct by (tags, outcome skeleton)",
            "exhaustive": bool(results) and n_conf == len(results),
            "obligations": len(results),
            "discharged": n_conf,
            "shards_inconclusive": [r["name"] for r in results if r.get("verdict") not in ("confirmed", "refuted")],
            "shards_refuted": [r["name"] for r in results if r.get("verdict") == "refuted"],
            "shards_not_run_tier_budget": sum(1 for r in results if str(r.get("stop_reason", "")).startswith("not-run")),
            "paths_confirmed": sum(r.get("paths_confirmed", 0) for r in results),
            "paths_unknown": sum(r.get("paths_unknown", 0) for r in results),
            "paths_ignored_by_assumption": sum(r.get("paths_ignored", 0) for r in results),
            "concrete_witness_validations": sum(r.get("paths_confirmed", 0) + r.get("paths_failed", 0) for r in results),
            "engine_divergences": sum(r.get("divergences", 0) for r in results),
            "solver_queries": sum(r.get("z3_checks", 0) for r in results),
            "solver_time_s": round(sum(r.get("z3_time", 0.0) for r in results), 2),
            "solver_unknown": sum(r.get("z3_unknown", 0) for r in results),
            "value_realizations": sum(r.get("realizations", 0) for r in results),
            "cpu_s": round(sum(r.get("cpu", 0.0) for r in results), 1),
            "tags": _merge_tags(results),
            "functions_encoded": functions,
            "bounds": getattr(mod, "BOUNDS", {}).get(tier, ""),
            "outside_bounds": getattr(mod, "OUTSIDE", ""),
            "stubs": getattr(mod, "STUBS", []),
            "known_findings": known_lines,
            "model_selftest": selftest_line,
            "shards": [
                {
                    "name": r["name"],
                    "verdict": r.get("verdict"),
                    "params": r["spec"].get("params"),
                    "scenario": r["spec"].get("scenario"),
                    "paths": r.get("paths", 0),
                    "z3_checks": r.get("z3_checks", 0),
                    "z3_time_s": round(r.get("z3_time", 0.0), 2),
                    "wall_s": round(r.get("wall", 0.0), 1),
                    "stop": r.get("stop_reason", ""),
                    "unknown_reasons": r.get("unknown_reasons", {}),
                    "value_realizations": r.get("realizations", 0),
                }
                for r in results
            ],
            "ks_obligations": [o for r in results if r.get("kind") == "ks" for o in r.get("ks_obligations", [])],
            "ks_translator_validation": next((r.get("ks_translator_validation") for r in results if r.get("kind") == "ks"), None),
            "samples": [dict(s, shard=r["name"]) for r in results for s in (r.get("samples") or [])[:2]][:60] or [{"note": "no path completed"}],
            "trusted_base": ["CrossHair 0.0.110 core", "z3 (wheel)", "sx/models.py supplement (self-tested)", "stubs listed under 'stubs'", "CPython 3.12"],
        },
        "assumptions": getattr(mod, "ASSUMPTIONS", []),
        "wall_s": round(wall, 1),
        "violations": len(violations),
    }
    if not args.no_evidence:
        os.makedirs(os.path.join(HERE, "evidence"), exist_ok=True)
        with open(os.path.join(HERE, "evidence", f"{pid}.json"), "w") as f:
            json.dump(ev, f, indent=1, default=str)

    print(
        f"[{pid}] shards confirmed {n_conf}/{len(results)}; paths={paths}; solver queries={ev['coverage']['solver_queries']} "
        f"({ev['coverage']['solver_time_s']} s); wall={wall:.0f}s",
        flush=True,
    )
    for name, rp, detail in violations[:4]:
        print(f"[{pid}] counterexample in shard {name}: {str(detail)[:600]}")
        print(f"VIOLATION property={pid} replay={rp}")
    if len(violations) > 4:
        print(f"[{pid}] ... and {len(violations) - 4} more reproduced counterexamples (replays/ has them all)")
    for name, info in ks_failed:
        print(f"[{pid}] KS-OBLIGATION-NOT-DISCHARGED in {name}: {json.dumps(info, default=str)[:800]}")
        # replay the solver's iteration against the real function (fresh start = reachable state); report only what reproduces
        for ob in info or []:
            rep = ob.get("replay") if isinstance(ob, dict) else None
            if not rep:
                continue
            doc = {"property": pid, "shard": {"name": "ks-replay/" + ob["obligation"], "scenario": "props.c11:ks_replay", "params": rep}, "witness": []}
            rr = clean_replay(doc, scratch)
            if rr.get("ok") is False:
                h = hashlib.sha1(json.dumps(doc, sort_keys=True, default=str).encode()).hexdigest()[:10]
                os.makedirs(os.path.join(HERE, "replays"), exist_ok=True)
                rp = os.path.join(HERE, "replays", f"{pid}-ks-{h}.json")
                doc["detail"] = rr.get("detail")
                json.dump(doc, open(rp, "w"), indent=1, default=str)
                print(f"[{pid}] KS counterexample reproduces on the real function: {str(rr.get('detail'))[:400]}")
                print(f"VIOLATION property={pid} replay={rp}")
                violations.append((name, rp, rr.get("detail")))
                break
    if violations:
        return EXIT_VIOLATION
    if ks_failed:
        # an inductive obligation failed but no bounded execution reproduced a violation: never reported as VIOLATION
        # (the loop-head state may be unreachable) and never as a pass
        print(f"[{pid}] HARNESS-ERROR: KS obligation(s) not discharged and no reproducing counterexample from the SX shards")
        return EXIT_HARNESS
    if harness_errors:
        for name, e in harness_errors[:10]:
            print(f"[{pid}] HARNESS-ERROR in {name}: {json.dumps(e, default=str)[:1500]}")
        return EXIT_HARNESS
    return EXIT_OK


def _merge_tags(results):
    t: dict = {}
    for r in results:
        for k, v in (r.get("tags") or {}).items():
            t[k] = t.get(k, 0) + v
    return t


if __name__ == "__main__":
    sys.exit(main())
