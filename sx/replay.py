"""Clean-interpreter replay: no CrossHair import, no proxies, real builtins, unmodified /repo code.

``python -m sx.replay replay.json [--trace-functions out.json]``
replay.json = {"property", "shard": spec, "witness": [[kind, value], ...]}
Prints one JSON line {"ok": bool|null, "detail": ..., "tags": [...]}; exit 0 always unless the harness crashes
(the caller interprets ok=False as "violation reproduces").
"""

from __future__ import annotations

import json
import sys


def run(doc, trace=None):
    from .engine import run_concrete
    from .shard import load_scenario

    assert "crosshair" not in sys.modules, "replay must not load the symbolic engine"
    scenario = load_scenario(doc["shard"])
    witness = [(k, v) for k, v in doc["witness"]]
    entered = set()
    if trace is not None:
        import os

        root = os.path.realpath("/repo/src/easynetwork")

        def prof(frame, event, arg):
            if event == "call":
                co = frame.f_code
                fn = co.co_filename
                if fn.startswith(root):
                    entered.add(f"{fn[len(root) + 1:]}:{co.co_qualname}")

        sys.setprofile(prof)
    try:
        out = run_concrete(scenario, witness, watchdog_s=float(doc.get('watchdog_s', 30)))
    finally:
        if trace is not None:
            sys.setprofile(None)
    assert "crosshair" not in sys.modules, "replay must not load the symbolic engine"
    if out is None:
        return {"ok": None, "detail": "precondition not met", "tags": []}, entered
    return {"ok": bool(out.ok), "detail": repr(out.detail)[:4000], "tags": list(out.tags)}, entered


def main(argv):
    sys.setrecursionlimit(10000)
    doc = json.load(open(argv[1]))
    docs = doc if isinstance(doc, list) else [doc]
    trace = None
    if len(argv) > 3 and argv[2] == "--trace-functions":
        trace = argv[3]
    allf = set()
    results = []
    for d in docs:
        r, entered = run(d, trace)
        allf |= entered
        results.append(r)
    if trace:
        json.dump(sorted(allf), open(trace, "w"))
    print(json.dumps(results if isinstance(doc, list) else results[0]))


if __name__ == "__main__":
    main(sys.argv)
