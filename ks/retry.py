"""KS obligations: loop-head induction for the timeout book-keeping loops (no bound on the number of wake-ups / partial writes).

Kernels (source read from /repo at run time):
  retry       SelectorBaseTransport._retry                      (one iteration of `while True`)
  send_all    StreamWriteTransport.send_all                     (one iteration of `while total_sent < nb_bytes_to_send`)
  sendmsg     SocketStreamTransport.send_all_from_iterable      (one iteration of `while buffers`)
with ElapsedTime.recompute_timeout / get_elapsed translated from their own source and inlined.

State at the loop head: remaining `timeout` (Real >= 0), ghost clock `now`, start `t0`, total budget `T0`, with the invariant
    INV:  (now - t0) + timeout == T0   and   timeout >= 0
Environment contracts (fresh solver variables per call):
    selector.select(w): clock advances by e, 0 <= e <= w; returns ready, and (not ready) => e == w
    callback(): returns, or raises WouldBlockOnRead / WouldBlockOnWrite
    self.send(buf, timeout)  [proved for _retry, assumed for send_all]: clock advances by e <= timeout; returns 1..remaining bytes
                             or raises TimeoutError with e == timeout
    self._retry(cb, timeout) [proved above, assumed for sendmsg]: returns (sent >= 0, timeout - e) with 0 <= e <= timeout, or raises
                             TimeoutError with e == timeout
Obligations, for EVERY path of one iteration from EVERY state satisfying INV (z3: negation unsat):
    O1 the loop continues            => INV holds again
    O2 the call returns              => returned/remaining timeout == T0 - (now - t0)  (nothing lost), elapsed <= T0
    O3 TimeoutError (break / raise)  => now - t0 == T0   (the whole budget was consumed, and not more)
    O4 send_all: bytes sent strictly increase
"""

from __future__ import annotations

import ast
import math
import random
import time

import z3

from .interp import Interp, Path, Raised, Unsupported, find_loop, get_ast

ETIMEDOUT, EBADF = 110, 9


def _names():
    return {
        "math.inf": math.inf,
        "selectors.EVENT_READ": 1,
        "selectors.EVENT_WRITE": 2,
        "_errno.ETIMEDOUT": ETIMEDOUT,
        "_errno.EBADF": EBADF,
        "True": True,
        "False": False,
        "None": None,
    }


class Ctx:
    """fresh variables + contract constraints collected while a path is built"""

    def __init__(self, symbolic, script=None):
        self.symbolic = symbolic
        self.n = 0
        self.script = list(script or [])

    def fresh_real(self, name):
        self.n += 1
        return z3.Real(f"{name}_{self.n}")

    def fresh_bool(self, name):
        self.n += 1
        return z3.Bool(f"{name}_{self.n}")

    def next(self):
        return self.script.pop(0)


def _recompute_timeout_stub(ctx):
    """ElapsedTime.recompute_timeout(old) translated from the real source, with get_elapsed() = end - start."""
    from easynetwork.lowlevel._utils import ElapsedTime

    fn = get_ast(ElapsedTime.recompute_timeout)
    gfn = get_ast(ElapsedTime.get_elapsed)

    def stub(interp, path, old_timeout):
        start, end = path.env["__et_start"], path.env["__et_end"]

        def get_elapsed(i2, p2):
            # translate get_elapsed's own body: start/end are set (we are after the with-block)
            sub = Interp(stubs={"RuntimeError": lambda i, p, *a: Raised("RuntimeError")}, names=_names(), symbolic=interp.symbolic, feasible=interp.feasible)
            env = {"self._start_time": start, "self._end_time": end, "self": "et"}
            outs = sub.exec_block(gfn.body, Path(env, list(p2.cond)))
            res = [(None if not o.cond[len(p2.cond):] else _and(o.cond[len(p2.cond):]), o.value) for o in outs if o.outcome == "return"]
            if len(res) != 1:
                raise Unsupported("get_elapsed has several feasible outcomes")
            return res[0][1]

        sub = Interp(stubs={"self.get_elapsed": get_elapsed}, names=_names(), symbolic=interp.symbolic, feasible=interp.feasible)
        env = {"old_timeout": old_timeout, "self": "et"}
        outs = sub.exec_block(fn.body, Path(env, list(path.cond)))
        res = []
        for o in outs:
            if o.outcome != "return":
                raise Unsupported("recompute_timeout: non-return outcome")
            extra = o.cond[len(path.cond):]
            res.append((_and(extra) if extra else True, o.value))
        return res

    return stub


def _and(conds):
    conds = [c for c in conds if c is not True]
    if not conds:
        return True
    return z3.And(*conds) if len(conds) > 1 else conds[0]


def _with_exit(interp, path, stmt):
    # `with ... ElapsedTime() as elapsed:` -> record the end time when the block is left
    for item in stmt.items:
        if isinstance(item.context_expr, ast.Call) and interp.dotted(item.context_expr.func).endswith("ElapsedTime"):
            path.env["__et_end"] = path.env["__now"]
    return path


def _common_stubs(ctx):
    def elapsed_time(interp, path):
        path.env["__et_start"] = path.env["__now"]
        return "elapsed-timer"

    def error_from_errno(interp, path, errno, *a):
        return Raised("TimeoutError" if errno == ETIMEDOUT else "OSError")

    return {
        "_utils.ElapsedTime": elapsed_time,
        "_utils.error_from_errno": error_from_errno,
        "RuntimeError": lambda i, p, *a: Raised("RuntimeError"),
        "elapsed.recompute_timeout": _recompute_timeout_stub(ctx),
        "__with_exit__": _with_exit,
    }


def _feasible_factory(base):
    s = z3.Solver()
    s.set("timeout", 5000)

    def feasible(conds):
        s.push()
        for c in base + [c for c in conds if c is not True]:
            s.add(c)
        r = s.check()
        s.pop()
        return str(r) != "unsat"

    return feasible


# --------------------------------------------------------------------------------------------------
# kernel: _retry


def retry_paths(symbolic=True, interval_inf=False, script=None, concrete_state=None):
    from easynetwork.lowlevel.api_sync.transports.base_selector import SelectorBaseTransport

    fn = get_ast(SelectorBaseTransport._retry)
    loop = find_loop(fn)
    ctx = Ctx(symbolic, script)
    contracts = []

    def callback(interp, path):
        if symbolic:
            c = z3.Int(f"cb_{ctx.n}")
            ctx.n += 1
            contracts.append(z3.And(c >= 0, c <= 2))
            path.env["__log"] = path.env.get("__log", ()) + (("cb", c),)
            return [(c == 0, "result"), (c == 1, Raised("WouldBlockOnRead", {"fileno": 5})), (c == 2, Raised("WouldBlockOnWrite", {"fileno": 5}))]
        k = ctx.next()
        return "result" if k == 0 else Raised("WouldBlockOnRead" if k == 1 else "WouldBlockOnWrite", {"fileno": 5})

    def select(interp, path, *args):
        if not args:
            # infinite wait: the awaited event eventually happens
            if symbolic:
                e = ctx.fresh_real("e")
                contracts.append(e >= 0)
                path.env["__log"] = path.env.get("__log", ()) + (("sel", e, True),)
            else:
                e = ctx.next()[0]
            path.env["__now"] = path.env["__now"] + e
            return True
        (w,) = args
        if symbolic:
            e, a = ctx.fresh_real("e"), ctx.fresh_bool("avail")
            contracts.append(z3.And(e >= 0, e <= w, z3.Implies(z3.Not(a), e == w)))
            path.env["__log"] = path.env.get("__log", ()) + (("sel", e, a),)
        else:
            e, a = ctx.next()
        path.env["__now"] = path.env["__now"] + e
        return a

    stubs = dict(_common_stubs(ctx))
    stubs.update({"callback": callback, "self._selector_factory": lambda i, p: "selector", "selector.register": lambda i, p, *a: None, "selector.select": select})
    if symbolic:
        T, now, t0, T0 = z3.Reals("timeout now t0 T0")
        R = math.inf if interval_inf else z3.Real("retry_interval")
        inv = [T >= 0, (now - t0) + T == T0, now >= t0]
        if not interval_inf:
            inv.append(R > 0)
        env = {"timeout": T, "retry_interval": R, "__now": now, "self": "transport"}
        interp = Interp(stubs=stubs, names=_names(), symbolic=True, feasible=_feasible_factory(inv))
        paths = interp.exec_block(loop.body, Path(env, []))
        return paths, inv, contracts, (T, now, t0, T0)
    env = dict(concrete_state)
    env["self"] = "transport"
    interp = Interp(stubs=stubs, names=_names(), symbolic=False)
    # run the loop concretely until it exits
    for _ in range(1000):
        paths = interp.exec_block(loop.body, Path(env, []))
        assert len(paths) == 1
        p = paths[0]
        if p.outcome in ("return", "raise"):
            return p
        if p.outcome == "break":
            # statement after the loop: raise ETIMEDOUT
            p.outcome, p.value = "raise", Raised("TimeoutError")
            return p
        env = p.env
    raise RuntimeError("concrete loop did not finish")


def _num(m, v):
    if isinstance(v, (int, float, bool)):
        return v
    r = m.eval(v, model_completion=True)
    if z3.is_true(r) or z3.is_false(r):
        return bool(z3.is_true(r))
    if z3.is_int_value(r):
        return r.as_long()
    return float(r.numerator_as_long()) / float(r.denominator_as_long())


def _check(name, hyps, goal, results, replay=None):
    s = z3.Solver()
    s.set("timeout", 20000)
    for h in hyps:
        if h is not True:
            s.add(h)
    s.add(z3.Not(goal))
    t = time.perf_counter()
    r = str(s.check())
    dt = time.perf_counter() - t
    entry = {"obligation": name, "result": r, "time_s": round(dt, 4)}
    if r == "sat":
        m = s.model()
        entry["model"] = {str(d): str(m[d]) for d in m.decls()}
        if replay is not None:
            kernel, T, R, path = replay
            # the kernels only read `timeout` (and the interval): the same iteration from a fresh start (nothing waited yet,
            # T0 = timeout) violates the same obligation, and that state IS reachable - it is the state at the first iteration
            entry["replay"] = {"kernel": kernel, "T": _num(m, T), "R": ("inf" if isinstance(R, float) else _num(m, R)), "log": [[x[0]] + [_num(m, y) for y in x[1:]] for x in path.env.get("__log", ())]}
    results.append(entry)
    return r


def obligations_retry(interval_inf: bool):
    results = []
    paths, inv, contracts, (T, now, t0, T0) = retry_paths(True, interval_inf)
    R = math.inf if interval_inf else z3.Real("retry_interval")
    kinds = {}
    for i, p in enumerate(paths):
        hyps = inv + contracts + [c for c in p.cond if c is not True]
        now2 = p.env["__now"]
        elapsed_total = now2 - t0
        kinds[p.outcome] = kinds.get(p.outcome, 0) + 1
        tag = f"retry[{'inf' if interval_inf else 'R'}]/path{i}:{p.outcome}"
        if p.outcome in ("fallthrough", "continue"):
            T2 = p.env["timeout"]
            _check(tag + "/O1-invariant", hyps, z3.And(T2 >= 0, elapsed_total + T2 == T0), results, ("retry", T, R, p))
        elif p.outcome == "return":
            ret = p.value
            if not (isinstance(ret, tuple) and len(ret) == 2):
                raise Unsupported("return shape")
            _check(tag + "/O2-remaining", hyps, z3.And(ret[1] == T0 - elapsed_total, elapsed_total <= T0, ret[1] >= 0), results, ("retry", T, R, p))
        elif p.outcome == "break":
            _check(tag + "/O3-timeout-only-when-budget-consumed", hyps, elapsed_total == T0, results, ("retry", T, R, p))
        elif p.outcome == "raise":
            if p.value.name == "TimeoutError":
                _check(tag + "/O3-timeout-only-when-budget-consumed", hyps, elapsed_total == T0, results, ("retry", T, R, p))
            else:
                # RuntimeError 'timeout error with infinite timeout' is unreachable with a finite timeout; OSError(EBADF) needs register() to fail
                _check(tag + f"/unreachable-{p.value.name}", hyps, z3.BoolVal(False), results)
    if not {"return", "break"} <= set(kinds) or not ({"fallthrough", "continue"} & set(kinds)):
        results.append({"obligation": f"retry[{'inf' if interval_inf else 'R'}]/shape", "result": "sat", "model": {"paths": str(kinds)}, "time_s": 0})
    return results, kinds


# --------------------------------------------------------------------------------------------------
# kernels: send_all and the sendmsg loop (callee contracts assumed, see module docstring)


def _loop_obligations(label, func, loop_index, make_env, stubs_extra, post):
    results = []
    fn = get_ast(func)
    loop = find_loop(fn, loop_index)
    ctx = Ctx(True)
    contracts = []
    env, inv, syms = make_env(contracts, ctx)
    stubs = dict(_common_stubs(ctx))
    stubs.update(stubs_extra(contracts, ctx, syms))
    interp = Interp(stubs=stubs, names=_names(), symbolic=True, feasible=_feasible_factory(inv))
    # loop condition holds at the head
    paths = []
    for p, v in interp.eval(loop.test, Path(env, [])):
        for p2, branch in interp.split(p, v):
            if branch:
                paths.extend(interp.exec_block(loop.body, p2))
    kinds = {}
    for i, p in enumerate(paths):
        kinds[p.outcome] = kinds.get(p.outcome, 0) + 1
        hyps = inv + contracts + [c for c in p.cond if c is not True]
        post(f"{label}/path{i}:{p.outcome}", p, hyps, syms, results)
    return results, kinds


def obligations_send_all():
    from easynetwork.lowlevel.api_sync.transports.abc import StreamWriteTransport

    def make_env(contracts, ctx):
        T, now, t0, T0, total, n = z3.Reals("timeout now t0 T0 total_sent nb_bytes_to_send")
        inv = [T >= 0, (now - t0) + T == T0, now >= t0, total >= 0, total < n]
        env = {"timeout": T, "__now": now, "total_sent": total, "nb_bytes_to_send": n, "self": "transport", "data": "view"}
        return env, inv, (T, now, t0, T0, total, n)

    def stubs_extra(contracts, ctx, syms):
        T, now, t0, T0, total, n = syms

        def send(interp, path, buffer, timeout):
            e, sent, ok = ctx.fresh_real("e"), ctx.fresh_real("sent"), ctx.fresh_bool("ok")
            contracts.append(z3.And(e >= 0, e <= timeout, z3.Implies(z3.Not(ok), e == timeout), sent >= 1, sent <= n - path.env["total_sent"]))
            path.env["__log"] = path.env.get("__log", ()) + (("call", e, sent, ok),)
            path.env["__now"] = path.env["__now"] + e
            return [(ok, sent), (z3.Not(ok), Raised("TimeoutError"))]

        return {"self.send": send, "__subscript__": lambda i, p, v, idx: "view-slice"}

    def post(tag, p, hyps, syms, results):
        T, now, t0, T0, total, n = syms
        elapsed_total = p.env["__now"] - t0
        if p.outcome in ("fallthrough", "continue"):
            _check(tag + "/O1-invariant", hyps, z3.And(p.env["timeout"] >= 0, elapsed_total + p.env["timeout"] == T0), results, ("send_all", T, math.inf, p))
            _check(tag + "/O4-progress", hyps, z3.And(p.env["total_sent"] > total, p.env["total_sent"] <= n), results)
        elif p.outcome == "raise" and p.value.name == "TimeoutError":
            _check(tag + "/O3-timeout-only-when-budget-consumed", hyps, elapsed_total == T0, results, ("send_all", T, math.inf, p))
        elif p.outcome == "raise":
            _check(tag + f"/unreachable-{p.value.name}", hyps, z3.BoolVal(False), results)
        else:
            _check(tag + "/unexpected-outcome", hyps, z3.BoolVal(False), results)

    return _loop_obligations("send_all", StreamWriteTransport.send_all, 0, make_env, stubs_extra, post)


def obligations_sendmsg():
    from easynetwork.lowlevel.api_sync.transports.socket import SocketStreamTransport

    def make_env(contracts, ctx):
        T, now, t0, T0 = z3.Reals("timeout now t0 T0")
        inv = [T >= 0, (now - t0) + T == T0, now >= t0]
        env = {"timeout": T, "__now": now, "buffers": True, "self": "transport", "try_sendmsg": "cb"}
        return env, inv, (T, now, t0, T0)

    def stubs_extra(contracts, ctx, syms):
        def retry(interp, path, cb, timeout):
            e, sent, ok = ctx.fresh_real("e"), ctx.fresh_real("sent"), ctx.fresh_bool("ok")
            contracts.append(z3.And(e >= 0, e <= timeout, z3.Implies(z3.Not(ok), e == timeout), sent >= 0))
            path.env["__log"] = path.env.get("__log", ()) + (("call", e, sent, ok),)
            path.env["__now"] = path.env["__now"] + e
            return [(ok, (sent, timeout - e)), (z3.Not(ok), Raised("TimeoutError"))]

        return {"self._retry": retry, "_utils.adjust_leftover_buffer": lambda i, p, *a: None}

    def post(tag, p, hyps, syms, results):
        T, now, t0, T0 = syms
        elapsed_total = p.env["__now"] - t0
        if p.outcome in ("fallthrough", "continue"):
            _check(tag + "/O1-invariant", hyps, z3.And(p.env["timeout"] >= 0, elapsed_total + p.env["timeout"] == T0), results, ("sendmsg", T, math.inf, p))
        elif p.outcome == "raise" and p.value.name == "TimeoutError":
            _check(tag + "/O3-timeout-only-when-budget-consumed", hyps, elapsed_total == T0, results, ("sendmsg", T, math.inf, p))
        else:
            _check(tag + "/unexpected-outcome", hyps, z3.BoolVal(False), results)

    return _loop_obligations("sendmsg", SocketStreamTransport.send_all_from_iterable, 0, make_env, stubs_extra, post)


# --------------------------------------------------------------------------------------------------
# translator validation: concrete mode of the same interpreter vs the real _retry on random scripts


def validate_retry(n: int = 200, seed: int = 0):
    """Runs the real SelectorBaseTransport._retry against a scripted selector/clock and the interpreter in concrete mode on the
    same script; they must agree on (outcome, returned timeout, final clock).  Returns the number of disagreements."""
    from easynetwork.lowlevel import _utils
    from easynetwork.lowlevel.api_sync.transports import base_selector

    rnd = random.Random(seed)
    bad = []
    for case in range(n):
        T = rnd.choice([0, 1, 2, 3, 5, 8])
        R = rnd.choice([1, 2, 4, math.inf])
        k = rnd.randint(0, 4)
        cbs = [rnd.choice([1, 2]) for _ in range(k)] + [0]
        sel = []
        remaining = T
        for _ in range(12):
            w = min(remaining, R) if remaining > 0 else 0
            a = rnd.random() < 0.6
            e = rnd.choice([0, w / 2, w]) if a else w
            sel.append((e, a))
            remaining = max(remaining - e, 0)
        # --- real function ---------------------------------------------------------------------------
        clock = {"now": 0.0}

        class FakeTime:
            @staticmethod
            def perf_counter():
                return clock["now"]

        class Sel:
            def __init__(self):
                pass

            def __enter__(self):
                return self

            def __exit__(self, *a):
                return None

            def register(self, *a):
                return None

            def select(self, timeout=None):
                e, a = real_sel.pop(0)
                clock["now"] += e
                return [1] if a else []

        real_sel = list(sel)
        real_cbs = list(cbs)

        class Tr(base_selector.SelectorBaseTransport):
            def close(self):
                pass

            def is_closed(self):
                return False

            @property
            def extra_attributes(self):
                return {}

        def cb():
            c = real_cbs.pop(0) if real_cbs else 0
            if c == 1:
                raise base_selector.WouldBlockOnRead(5)
            if c == 2:
                raise base_selector.WouldBlockOnWrite(5)
            return "result"

        saved = _utils.time
        _utils.time = FakeTime
        try:
            tr = Tr(R, selector_factory=Sel)
            try:
                real = ("return", tr._retry(cb, T)[1], clock["now"])
            except TimeoutError:
                real = ("raise:TimeoutError", None, clock["now"])
            except Exception as e:  # noqa: BLE001
                real = ("raise:" + type(e).__name__, None, clock["now"])
        finally:
            _utils.time = saved
        # --- interpreter, concrete mode ----------------------------------------------------------------
        script = []
        cb_iter, sel_iter = list(cbs), list(sel)
        # the interpreter consumes the script in program order: callback outcome, then (if it blocks) a select result
        # build lazily through a merged iterator
        class Script(list):
            def pop(self, idx=0):
                raise NotImplementedError

        merged = {"cbs": cb_iter, "sel": sel_iter}

        class Lazy:
            def __init__(self):
                self.last = None

            def pop(self, _i=0):
                raise NotImplementedError

        def next_value(kind):
            if kind == "cb":
                return merged["cbs"].pop(0) if merged["cbs"] else 0
            return merged["sel"].pop(0)

        try:
            p = _retry_concrete(T, R, next_value)
            mine = (p.outcome if p.outcome == "return" else "raise:" + p.value.name, p.value[1] if p.outcome == "return" else None, p.env["__now"])
        except Unsupported as e:
            mine = ("unsupported", str(e), None)
        if real != mine:
            bad.append({"T": T, "R": R, "cbs": cbs, "sel": sel[:6], "real": real, "interp": mine})
    return bad


def _retry_concrete(T, R, next_value):
    from easynetwork.lowlevel.api_sync.transports.base_selector import SelectorBaseTransport

    fn = get_ast(SelectorBaseTransport._retry)
    loop = find_loop(fn)
    ctx = Ctx(False)

    def callback(interp, path):
        k = next_value("cb")
        return "result" if k == 0 else Raised("WouldBlockOnRead" if k == 1 else "WouldBlockOnWrite", {"fileno": 5})

    def select(interp, path, *args):
        e, a = next_value("sel")
        path.env["__now"] = path.env["__now"] + e
        return True if not args else a

    stubs = dict(_common_stubs(ctx))
    stubs.update({"callback": callback, "self._selector_factory": lambda i, p: "selector", "selector.register": lambda i, p, *a: None, "selector.select": select})
    interp = Interp(stubs=stubs, names=_names(), symbolic=False)
    env = {"timeout": T, "retry_interval": R, "__now": 0.0, "self": "transport"}
    for _ in range(1000):
        paths = interp.exec_block(loop.body, Path(env, []))
        assert len(paths) == 1, len(paths)
        p = paths[0]
        if p.outcome in ("return", "raise"):
            return p
        if p.outcome == "break":
            p.outcome, p.value = "raise", Raised("TimeoutError")
            return p
        env = p.env
    raise RuntimeError("no exit")


def run_all():
    """-> dict in the shape of a shard result"""
    t0 = time.perf_counter()
    out = {"verdict": "confirmed", "paths": 0, "paths_confirmed": 0, "z3_checks": 0, "z3_time": 0.0, "errors": [], "counterexamples": [], "tags": {}, "samples": [], "ks_obligations": [], "kind": "ks"}
    try:
        bad = validate_retry()
        out["ks_translator_validation"] = {"cases": 200, "disagreements": len(bad), "examples": bad[:3]}
        if bad:
            out["verdict"] = "inconclusive"
            out["errors"].append({"kind": "ks-translator-disagrees-with-real-function", "examples": bad[:2]})
        allres = []
        shapes = {}
        for label, fn in (("retry-R", lambda: obligations_retry(False)), ("retry-inf", lambda: obligations_retry(True)), ("send_all", obligations_send_all), ("sendmsg", obligations_sendmsg)):
            res, kinds = fn()
            shapes[label] = kinds
            allres.extend(res)
        out["ks_obligations"] = allres
        out["ks_path_shapes"] = shapes
        out["paths"] = len(allres)
        out["z3_checks"] = len(allres)
        out["z3_time"] = sum(r["time_s"] for r in allres)
        failed = [r for r in allres if r["result"] != "unsat"]
        out["paths_confirmed"] = len(allres) - len(failed)
        if failed:
            out["verdict"] = "refuted" if any(r["result"] == "sat" for r in failed) else "inconclusive"
            out["ks_failed"] = failed[:10]
        out["nontrivial_keys"] = len(allres)
        out["tags"] = {"ks-obligation": len(allres)}
        out["samples"] = [{"ks_obligation": r["obligation"], "result": r["result"]} for r in allres[:6]]
    except Unsupported as e:
        out["verdict"] = "inconclusive"
        out["errors"].append({"kind": "ks-unsupported", "exc": repr(e)})
        out["unknown_reasons"] = {"kernel left the supported subset: " + str(e)[:80]: 1}
    out["wall"] = time.perf_counter() - t0
    out["stop_reason"] = "ks"
    return out


if __name__ == "__main__":
    import json

    print(json.dumps(run_all(), indent=1, default=str)[:6000])
