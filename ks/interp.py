"""KS engine: a small symbolic interpreter of Python AST over z3 Reals/Ints/Bools (path splitting, no merging) for the
numeric retry/timeout kernels of EasyNetwork, used for *loop-head induction*: the state at the head of a `while` loop is
arbitrary (fresh solver variables constrained by an invariant), ONE iteration of the real loop body - read from /repo's current
source with inspect.getsource - is executed symbolically, and the obligations (invariant preserved / budget respected on every
exit) are discharged by z3 for all values at once.  This removes the bound on the number of wake-ups that the SX shards have.

Supported subset (anything else raises Unsupported => the obligation is reported inconclusive, never as a pass):
assignments (also tuple targets and annotated), if/elif/else, `while True` (entered once: the body is what is analysed) and
`while <cond>`, break/continue/return/raise, try/except on named exception classes raised by environment stubs, `with` (body
only; context managers named in `with_enter` hooks get a value), comparisons, boolean ops, + - * on numbers, names, attributes
resolved through an environment dict, calls dispatched to *stubs* given by the obligation.

The same interpreter runs in *concrete* mode (plain Python numbers, stubs returning scripted values); `ks.retry` uses that to
validate the translation against the real function on random scripts before trusting any `unsat`.
"""

from __future__ import annotations

import ast
import dataclasses
import inspect
import textwrap
from typing import Any


class Unsupported(Exception):
    pass


class Raised:
    """an exception value flowing through the interpreter"""

    def __init__(self, name: str, payload: Any = None):
        self.name = name
        self.payload = payload

    def __repr__(self):
        return f"Raised({self.name})"


@dataclasses.dataclass
class Path:
    env: dict
    cond: list  # z3 bool terms (symbolic mode) - conjunction = path condition
    outcome: str = "fallthrough"  # fallthrough | break | continue | return | raise
    value: Any = None


def get_ast(func) -> ast.FunctionDef:
    src = textwrap.dedent(inspect.getsource(func))
    node = ast.parse(src).body[0]
    assert isinstance(node, (ast.FunctionDef, ast.AsyncFunctionDef))
    return node


def find_loop(fn: ast.FunctionDef, index: int = 0) -> ast.While:
    loops = [n for n in ast.walk(fn) if isinstance(n, ast.While)]
    return loops[index]


class Interp:
    def __init__(self, *, stubs: dict, names: dict, symbolic: bool, feasible=None):
        self.stubs = stubs  # dotted call name -> python callable(interp, path, *args) -> value | Raised | list[(cond, value)]
        self.names = names  # global names (math.inf, errno constants, exception classes by name, ...)
        self.symbolic = symbolic
        self.feasible = feasible or (lambda conds: True)

    # -- expressions ------------------------------------------------------------------------------
    def dotted(self, node) -> str:
        if isinstance(node, ast.Name):
            return node.id
        if isinstance(node, ast.Attribute):
            return self.dotted(node.value) + "." + node.attr
        raise Unsupported(f"call target {ast.dump(node)[:60]}")

    def eval(self, node, path: Path):
        """returns a list of (path, value): evaluation may split the path (stubs with several outcomes)"""
        if isinstance(node, ast.Constant):
            return [(path, node.value)]
        if isinstance(node, ast.Name):
            if node.id in path.env:
                return [(path, path.env[node.id])]
            if node.id in self.names:
                return [(path, self.names[node.id])]
            raise Unsupported(f"name {node.id}")
        if isinstance(node, ast.Attribute):
            d = self.dotted(node)
            if d in path.env:
                return [(path, path.env[d])]
            if d in self.names:
                return [(path, self.names[d])]
            raise Unsupported(f"attribute {d}")
        if isinstance(node, ast.Tuple):
            outs = [(path, [])]
            for elt in node.elts:
                nxt = []
                for p, vals in outs:
                    for p2, v in self.eval(elt, p):
                        nxt.append((p2, vals + [v]))
                outs = nxt
            return [(p, tuple(v)) for p, v in outs]
        if isinstance(node, ast.UnaryOp) and isinstance(node.op, ast.Not):
            return [(p, self._not(v)) for p, v in self.eval(node.operand, path)]
        if isinstance(node, ast.UnaryOp) and isinstance(node.op, ast.USub):
            return [(p, -v) for p, v in self.eval(node.operand, path)]
        if isinstance(node, ast.BinOp):
            outs = []
            for p, a in self.eval(node.left, path):
                for p2, b in self.eval(node.right, p):
                    outs.append((p2, self._binop(node.op, a, b)))
            return outs
        if isinstance(node, ast.Compare):
            if len(node.ops) != 1:
                raise Unsupported("chained comparison")
            outs = []
            for p, a in self.eval(node.left, path):
                for p2, b in self.eval(node.comparators[0], p):
                    outs.append((p2, self._compare(node.ops[0], a, b)))
            return outs
        if isinstance(node, ast.BoolOp):
            # evaluate without short-circuit splitting (operands here are side-effect free)
            outs = [(path, [])]
            for v in node.values:
                nxt = []
                for p, vals in outs:
                    for p2, x in self.eval(v, p):
                        nxt.append((p2, vals + [x]))
                outs = nxt
            return [(p, self._boolop(node.op, vals)) for p, vals in outs]
        if isinstance(node, ast.Call):
            name = self.dotted(node.func)
            if name == "bool" and len(node.args) == 1:
                return self.eval(node.args[0], path)
            if name not in self.stubs:
                raise Unsupported(f"call to {name}")
            outs = [(path, [])]
            for a in node.args:
                nxt = []
                for p, vals in outs:
                    for p2, x in self.eval(a, p):
                        nxt.append((p2, vals + [x]))
                outs = nxt
            res = []
            for p, vals in outs:
                r = self.stubs[name](self, p, *vals)
                if isinstance(r, list):
                    for cond, v in r:
                        res.append((self._extend(p, cond), v))
                else:
                    res.append((p, r))
            return res
        if isinstance(node, ast.Subscript):
            outs = []
            for p, v in self.eval(node.value, path):
                if isinstance(v, Raised):
                    outs.append((p, v))
                elif isinstance(v, tuple) and isinstance(node.slice, ast.Constant) and isinstance(node.slice.value, int):
                    outs.append((p, v[node.slice.value]))
                else:
                    outs.append((p, "subscript-view"))  # a buffer slice: its content plays no role in the kernels analysed
            return outs
        if isinstance(node, ast.Lambda):
            return [(path, ("lambda", node))]
        raise Unsupported(type(node).__name__)

    def _extend(self, path: Path, cond) -> Path:
        if cond is True or cond is None:
            return path
        return Path(dict(path.env), path.cond + [cond], path.outcome, path.value)

    def _not(self, v):
        if self.symbolic:
            import z3

            if isinstance(v, z3.ExprRef):
                return z3.Not(v)
        return not v

    def _boolop(self, op, vals):
        if self.symbolic:
            import z3

            if any(isinstance(v, z3.ExprRef) for v in vals):
                vals = [v if isinstance(v, z3.ExprRef) else z3.BoolVal(bool(v)) for v in vals]
                return z3.And(*vals) if isinstance(op, ast.And) else z3.Or(*vals)
        if isinstance(op, ast.And):
            return all(vals)
        return any(vals)

    def _binop(self, op, a, b):
        if isinstance(op, ast.Add):
            return a + b
        if isinstance(op, ast.Sub):
            if self._is_inf(a):
                return a
            return a - b
        if isinstance(op, ast.Mult):
            return a * b
        raise Unsupported(type(op).__name__)

    @staticmethod
    def _is_inf(v):
        return isinstance(v, float) and v in (float("inf"), float("-inf"))

    def _compare(self, op, a, b):
        # +inf is represented by the Python float; a symbolic Real is always finite
        ia, ib = self._is_inf(a), self._is_inf(b)
        if ia or ib:
            import z3

            if ia and ib:
                fa, fb = a, b
            elif ib:
                # finite a vs +/-inf
                big = b > 0
                table = {ast.Lt: big, ast.LtE: big, ast.Gt: not big, ast.GtE: not big, ast.Eq: False, ast.NotEq: True}
                if isinstance(a, z3.ExprRef) or isinstance(a, (int, float)):
                    return table[type(op)]
            else:
                big = a > 0
                table = {ast.Lt: not big, ast.LtE: not big, ast.Gt: big, ast.GtE: big, ast.Eq: False, ast.NotEq: True}
                return table[type(op)]
            return {ast.Lt: fa < fb, ast.LtE: fa <= fb, ast.Gt: fa > fb, ast.GtE: fa >= fb, ast.Eq: fa == fb, ast.NotEq: fa != fb}[type(op)]
        if isinstance(op, ast.Lt):
            return a < b
        if isinstance(op, ast.LtE):
            return a <= b
        if isinstance(op, ast.Gt):
            return a > b
        if isinstance(op, ast.GtE):
            return a >= b
        if isinstance(op, ast.Eq):
            return a == b
        if isinstance(op, ast.NotEq):
            return a != b
        if isinstance(op, ast.Is):
            return a is b
        if isinstance(op, ast.IsNot):
            return a is not b
        raise Unsupported(type(op).__name__)

    # -- truthiness split ---------------------------------------------------------------------------
    def split(self, path: Path, v):
        """-> list of (path, bool)"""
        if self.symbolic:
            import z3

            if isinstance(v, z3.ExprRef):
                out = []
                for branch, cond in ((True, v), (False, z3.Not(v))):
                    p = self._extend(path, cond)
                    if self.feasible(p.cond):
                        out.append((p, branch))
                return out
        return [(path, bool(v))]

    # -- statements ---------------------------------------------------------------------------------
    def exec_block(self, stmts, path: Path):
        paths = [path]
        for stmt in stmts:
            nxt = []
            for p in paths:
                if p.outcome != "fallthrough":
                    nxt.append(p)
                else:
                    nxt.extend(self.exec_stmt(stmt, p))
            paths = nxt
        return paths

    def assign(self, target, value, path: Path):
        if isinstance(target, ast.Name):
            path.env[target.id] = value
        elif isinstance(target, ast.Attribute):
            path.env[self.dotted(target)] = value
        elif isinstance(target, ast.Tuple):
            if not isinstance(value, tuple) or len(value) != len(target.elts):
                raise Unsupported("tuple assignment shape")
            for t, v in zip(target.elts, value):
                self.assign(t, v, path)
        else:
            raise Unsupported("assignment target")

    def exec_stmt(self, stmt, path: Path):
        path = Path(dict(path.env), list(path.cond), path.outcome, path.value)
        if isinstance(stmt, ast.Expr):
            if isinstance(stmt.value, ast.Constant):
                return [path]
            outs = []
            for p, v in self.eval(stmt.value, path):
                if isinstance(v, Raised):
                    p.outcome, p.value = "raise", v
                outs.append(p)
            return outs
        if isinstance(stmt, ast.AnnAssign):
            if stmt.value is None:
                return [path]
            outs = []
            for p, v in self.eval(stmt.value, path):
                p = Path(dict(p.env), list(p.cond))
                if isinstance(v, Raised):
                    p.outcome, p.value = "raise", v
                else:
                    self.assign(stmt.target, v, p)
                outs.append(p)
            return outs
        if isinstance(stmt, ast.Assign):
            outs = []
            for p, v in self.eval(stmt.value, path):
                p = Path(dict(p.env), list(p.cond))
                if isinstance(v, Raised):
                    p.outcome, p.value = "raise", v
                else:
                    for t in stmt.targets:
                        self.assign(t, v, p)
                outs.append(p)
            return outs
        if isinstance(stmt, ast.AugAssign):
            outs = []
            for p, v in self.eval(ast.BinOp(left=stmt.target, op=stmt.op, right=stmt.value), path):
                p = Path(dict(p.env), list(p.cond))
                self.assign(stmt.target, v, p)
                outs.append(p)
            return outs
        if isinstance(stmt, ast.If):
            outs = []
            for p, v in self.eval(stmt.test, path):
                for p2, branch in self.split(p, v):
                    outs.extend(self.exec_block(stmt.body if branch else stmt.orelse, p2))
            return outs
        if isinstance(stmt, ast.Break):
            path.outcome = "break"
            return [path]
        if isinstance(stmt, ast.Continue):
            path.outcome = "continue"
            return [path]
        if isinstance(stmt, ast.Pass):
            return [path]
        if isinstance(stmt, ast.Delete):
            return [path]
        if isinstance(stmt, ast.Return):
            if stmt.value is None:
                path.outcome, path.value = "return", None
                return [path]
            outs = []
            for p, v in self.eval(stmt.value, path):
                p = Path(dict(p.env), list(p.cond))
                if isinstance(v, Raised):
                    p.outcome, p.value = "raise", v
                elif isinstance(v, tuple) and any(isinstance(x, Raised) for x in v):
                    p.outcome, p.value = "raise", next(x for x in v if isinstance(x, Raised))
                else:
                    p.outcome, p.value = "return", v
                outs.append(p)
            return outs
        if isinstance(stmt, ast.Raise):
            if stmt.exc is None:
                raise Unsupported("bare raise")
            outs = []
            for p, v in self.eval(stmt.exc, path):
                p = Path(dict(p.env), list(p.cond))
                p.outcome, p.value = "raise", v if isinstance(v, Raised) else Raised(str(v))
                outs.append(p)
            return outs
        if isinstance(stmt, ast.With):
            p0 = path
            for item in stmt.items:
                vals = self.eval(item.context_expr, p0)
                if len(vals) != 1:
                    raise Unsupported("with-expression splits")
                p0, v = vals[0]
                if isinstance(v, Raised):
                    p0.outcome, p0.value = "raise", v
                    return [p0]
                if item.optional_vars is not None:
                    self.assign(item.optional_vars, v, p0)
            outs = self.exec_block(stmt.body, p0)
            # __exit__ hooks (e.g. ElapsedTime: record the end time)
            hook = self.stubs.get("__with_exit__")
            if hook is not None:
                outs = [hook(self, p, stmt) for p in outs]
            return outs
        if isinstance(stmt, ast.Try):
            if stmt.finalbody or stmt.orelse:
                raise Unsupported("try/finally or try/else")
            outs = []
            for p in self.exec_block(stmt.body, path):
                if p.outcome == "raise" and isinstance(p.value, Raised):
                    handled = False
                    for h in stmt.handlers:
                        names = []
                        if h.type is None:
                            raise Unsupported("bare except")
                        for t in h.type.elts if isinstance(h.type, ast.Tuple) else [h.type]:
                            names.append(self.dotted(t).split(".")[-1])
                        if p.value.name in names:
                            q = Path(dict(p.env), list(p.cond))
                            if h.name:
                                q.env[h.name] = p.value
                                for k, v in (p.value.payload or {}).items():
                                    q.env[f"{h.name}.{k}"] = v
                            outs.extend(self.exec_block(h.body, q))
                            handled = True
                            break
                    if not handled:
                        outs.append(p)
                else:
                    outs.append(p)
            return outs
        if isinstance(stmt, ast.While):
            raise Unsupported("nested while")
        raise Unsupported(type(stmt).__name__)
